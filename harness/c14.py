#!/venv/bin/python
"""C14 — history browsing and the accept path: correspondence with Ptk.Model.C14 + property oracle.

Two kinds of cases:
  kind "buf"  : a real Buffer + InMemoryHistory (optionally with a gated `load()` so that the
                asynchronous population of the working lines can be interleaved item by item)
                + a scripted Validator, driven method by method inside a running event loop;
  kind "sess" : a real PromptSession on a pipe input, several `prompt_async()` calls in a row,
                driven key by key through the VT100 parser and the real key bindings.
"""
from __future__ import annotations

import asyncio
import inspect
import itertools
import json
import os
import sys
import threading

sys.path.insert(0, os.path.dirname(os.path.abspath(__file__)))
import core
from core import enc_str

from prompt_toolkit import PromptSession
from prompt_toolkit.application import Application
from prompt_toolkit.application.current import set_app
from prompt_toolkit.buffer import Buffer, ValidationState
from prompt_toolkit.document import Document
from prompt_toolkit.enums import EditingMode
from prompt_toolkit.filters import Condition
from prompt_toolkit.history import FileHistory, InMemoryHistory
from prompt_toolkit.input import DummyInput, create_pipe_input
from prompt_toolkit.output import DummyOutput
from prompt_toolkit.validation import ThreadedValidator, ValidationError, Validator

ID = "C14"
DRIVER = "drv_c14"
PROPS = ["Ptk.Props.C14", "Ptk.Props.C14Scan", "Ptk.Props.C14Val", "Ptk.Props.C14Load", "Ptk.Props.C14Gen", "Ptk.Props.C14Yank", "Ptk.Props.C14Fix"]
LEVEL_TEXT = ("Lean 4 theorems over an executable model of Buffer history navigation (history_backward/forward with "
              "the prefix filter, go_to_history, auto_up/down), the working-copy mechanism incl. the asynchronous "
              "loader racing with navigation AND edits, validation_state / validation_error with every site that "
              "resets them, validate / validate_and_handle / append_to_history / reset (also append_to_history=True), "
              "the validate-while-typing coroutine (_validate_async under _only_one_at_a_time, cut at its await, for "
              "validators that suspend or not) interleaved with everything else, the PromptSession glue (accept, "
              "accept_default, multiline Enter vs Esc-Enter, operate-and-get-next, background tasks cancelled at exit), "
              "and yank-nth-arg / yank-last-arg: navigation never changes the stored history, edits (also made while "
              "the history is still loading) stay in their working copy, back k / forward k returns, prefix hits, for "
              "EVERY schedule of edits / validator progress / accept the accepted text is the text on screen and the "
              "validator passes exactly it (a cached verdict is always the verdict of the current text; stale "
              "verdicts are discarded), reject leaves everything but the cursor of a fresh verdict and stores the "
              "validator's error, accept appends exactly once, yank reads the history and writes only the current "
              "working copy, the next prompt starts from history + [default] (operate-and-get-next included); the "
              "model is tied to /repo on every run by regenerated tables (key -> handler map of emacs / vi / multiline "
              "prompts, complete-while-typing exclusivity, the yank word pattern, the end-of-history count), a "
              "differential correspondence (method level with an item-by-item gated loader and gated / really "
              "threaded validators under manual and natural scheduling; key level over several prompts of one "
              "PromptSession in emacs and vi mode) and the property oracle; two known findings are excluded by "
              "explicit hypotheses (history not loaded yet at accept; stale filter after go_to_history)")
LEVEL_NOTE = ("trusted: Lean kernel, axioms propext/Classical.choice/Quot.sound only; the hand-written model "
              "(validated by the correspondence, not proved equal to the Python); validators that look at the text "
              "only; asyncio atomicity between awaits (the validator coroutine is cut at its single await)")
RULE = ("exhaustive: (1) every history of up to N entries over {a, ab, b, a\\nb} x typed prefix in {'', a, ab} x prefix "
        "search on/off x every ordered pair of 17 navigation/edit/accept ops; (2) the same histories only partly "
        "loaded (j < n items delivered) x every ordered pair of 12 ops incl. a loader item; (3) asynchronous "
        "validation: gated validator, validate-while-typing on, every sequence of K ops from {ins x, ins a, delb, "
        "left, task start, validation done, accept keep/reset, validate, history_backward, vwt off, loop turn} after "
        "nothing typed / 'a' typed / its validation in flight; (4) yank: histories <= 2 lines over 4 lines with quotes "
        "x every triple of 7 ops; (5) the word splitter against the real _QUOTED_WORDS_RE on all strings over "
        "{a, space, \", ', \\n, b} up to length L; (6) the candidate go_to_history repair applied from outside: every "
        "triple of 7 ops followed by back 1 / forward 1; all state printed after every op. Then a FileHistory family "
        "(entries with line breaks, \\r, form feeds, '+' / '#' prefixes accepted and read back by a new FileHistory "
        "object), seeded random "
        "method-level sequences (up to 30 ops, loader items interleaved, scripted validators rejecting at positions "
        "-2..len+7, validate-while-typing toggled, gated validators under natural scheduling, reset with "
        "append_to_history, yank), random asynchronous schedules (gated coroutine and a real ThreadedValidator whose "
        "worker thread blocks until released), seeded random key-level sessions in emacs mode (1-4 prompts on one "
        "PromptSession, numeric arguments incl. 0 and negative, accept_default, multiline prompts, Esc-Enter, c-o, "
        "yank-nth/last-arg with and without argument, validations finishing between keys) and in vi mode "
        "(Esc/i/a, k/j with counts, nG, Enter in both modes, multiline); a case is non-trivial when the history is "
        "non-empty and it contains a history navigation / yank / operate-and-get-next op, or when a validation in "
        "flight finishes in it")
EXHAUSTIVE = True
EXHAUSTIVE_SCOPE = {"quick": "histories <= 2 entries over {a,ab,b,a\\nb}, typed prefix {'',a,ab}, search on/off, all op pairs "
                             "from 17 ops; partial loads: all op pairs from 12 ops; async validation: all op triples "
                             "from 12 ops x 2 histories x 3 starting points; yank: all op triples from 7 ops x 21 "
                             "histories; word splitter: all strings over 6 symbols up to length 5",
                    "thorough": "histories <= 3 entries, otherwise as quick; async validation: all op 4-tuples; word "
                                "splitter: length 6"}
TRUSTED = ["harness/c14.py compares (working_index, cursor, validation_state, validation_error position, "
           "history_search_text, preferred_column, loader flags, number of validator tasks not started yet, the "
           "`running` flag of _only_one_at_a_time together with the document the validation in flight was started "
           "with, validate_while_typing, registered operate-and-get-next callables, yank_nth_arg_state, all working "
           "lines, History.get_strings(), InMemoryHistory._storage, pending loader items, return value / "
           "accept-handler argument) after every op",
           "Ptk/Model/C14.lean is a hand translation of the anchored Buffer/History/Validator/PromptSession code "
           "(correspondence-checked)",
           "the gated History.load() used for interleaving is a subclass override in the harness (same protocol as "
           "History.load: snapshot of the loaded strings, newest first, but awaiting between items)",
           "the gated validator (validate_async awaits a harness event) and the HApp subclass that holds back "
           "_async_validator() tasks until the schedule starts them are harness code; the real ThreadedValidator "
           "families (bare Buffer and PromptSession) use the unmodified class with an inner validator that blocks "
           "its worker thread; they run under a watchdog (4 s, confirmed once with 30 s, circuit breaker after 3 "
           "confirmed stalls per worker process) and a validation that does not complete, a worker whose verdict "
           "nobody waits for, or a ValidationError that reaches the event loop instead of the validation coroutine "
           "is reported as a violation on the real code",
           "harness/gen_c14.py reads the key bindings, the complete_while_typing filter, the word pattern and the "
           "end-of-history count from the live objects / the AST of the current tree"]
ASSUMPTIONS = ["validators are functions of the text only (scripted family: needle + error position rule)",
               "asyncio single-threaded atomicity between awaits; a validator's validate_async is opaque between its "
               "call and its completion (however often it suspends inside, the Buffer only sees 'in flight' and "
               "'finished'; Validator.validate_async does not suspend at all)",
               "InMemoryHistory semantics for storage; History.load() yields a snapshot newest-first",
               "paste mode off (newline copies the margin); str.isspace / regex \\s are the runtime's classes "
               "(parameters of the model, instantiated from Gen/PyChars)"]
PARTIAL_SCOPE = ["accept_appends_once compares with the newest *stored* entry only once the history is loaded "
                 "(known finding: duplicate appended when accepting before the first load; candidate repair in "
                 "History.get_strings, not applied)",
                 "back_forth needs the current entry to pass the remembered filter (known finding: go_to_history / "
                 "end-of-history can leave the buffer on an entry the filter rejects; the one-line candidate repair is "
                 "modelled and proved to restore the round trip everywhere, but it makes Up/Down after a jump filter "
                 "on the entry jumped to instead of the typed prefix, so it is not recommended as it stands)",
                 "operate-and-get-next is modelled as it is: it accepts like accept-line and its set_working_index "
                 "callable provably never selects the following entry (it runs before the loader has delivered "
                 "anything) - outside the property's statement, reported as an observation",
                 "completion menu, selection, undo stack, incremental search (apply_search / accept-search) are not "
                 "modelled (auto_up/auto_down are modelled for complete_state = None and no selection); "
                 "complete_while_typing is only pinned to be off under history search",
                 "go_to_history with a negative index is outside the model (vi nG always passes >= 0)",
                 "ThreadedHistory / FileHistory loaders are C13's subject; here the loader is any newest-first item "
                 "stream delivered one item per step; the FileHistory file format is not modelled - a sampled "
                 "family only checks that what accept stores is what a new FileHistory object reads back",
                 "validators that inspect the cursor position, validators whose validate_async suspends more than "
                 "once, and ValidationError.message are outside the model"]
TECHNIQUE = "lean4-proof + differential correspondence + oracle"
ANCHORS = ["src/prompt_toolkit/buffer.py", "src/prompt_toolkit/history.py", "src/prompt_toolkit/validation.py",
           "src/prompt_toolkit/shortcuts/prompt.py", "src/prompt_toolkit/key_binding/bindings/named_commands.py",
           "src/prompt_toolkit/key_binding/bindings/basic.py", "src/prompt_toolkit/key_binding/bindings/emacs.py",
           "src/prompt_toolkit/key_binding/bindings/vi.py", "src/prompt_toolkit/document.py"]
MODELLED = {
    "src/prompt_toolkit/buffer.py": [
        "Buffer.reset", "Buffer.load_history_if_not_yet_loaded", "Buffer.load_history_if_not_yet_loaded.load_history",
        "Buffer._set_text", "Buffer._set_cursor_position", "Buffer.text", "Buffer.cursor_position",
        "Buffer.working_index", "Buffer._text_changed", "Buffer._cursor_position_changed", "Buffer.document",
        "Buffer.set_document", "Buffer.cursor_up", "Buffer.cursor_down", "Buffer.cursor_left", "Buffer.cursor_right",
        "Buffer.auto_up", "Buffer.auto_down", "Buffer.history_forward", "Buffer.history_backward",
        "Buffer.go_to_history", "Buffer._set_history_search", "Buffer._history_matches",
        "Buffer.delete_before_cursor", "Buffer.insert_text", "Buffer.newline", "Buffer.yank_nth_arg",
        "Buffer.yank_last_arg", "Buffer.validate", "Buffer._validate_async", "Buffer.append_to_history",
        "Buffer._create_auto_validate_coroutine", "Buffer._create_auto_validate_coroutine.async_validator",
        "Buffer.validate_and_handle", "_only_one_at_a_time", "_only_one_at_a_time.new_coroutine"],
    "src/prompt_toolkit/history.py": [
        "History.__init__", "History.load", "History.get_strings", "History.append_string",
        "InMemoryHistory.__init__", "InMemoryHistory.load_history_strings", "InMemoryHistory.store_string"],
    "src/prompt_toolkit/validation.py": [
        "Validator.validate_async", "ThreadedValidator.validate", "ThreadedValidator.validate_async",
        "DynamicValidator.validate", "DynamicValidator.validate_async"],
    "src/prompt_toolkit/shortcuts/prompt.py": [
        "PromptSession._add_pre_run_callables", "PromptSession._add_pre_run_callables.pre_run2",
        "PromptSession._create_default_buffer.accept", "PromptSession._create_prompt_bindings._accept_input",
        "PromptSession._create_prompt_bindings.do_accept"],
    "src/prompt_toolkit/key_binding/bindings/named_commands.py": [
        "accept_line", "backward_char", "forward_char", "backward_delete_char", "beginning_of_history",
        "end_of_history", "beginning_of_line", "end_of_line", "next_history", "previous_history",
        "operate_and_get_next", "operate_and_get_next.set_working_index", "self_insert", "yank_last_arg",
        "yank_nth_arg"],
    "src/prompt_toolkit/key_binding/bindings/basic.py": [
        "load_basic_bindings._go_up", "load_basic_bindings._go_down", "load_basic_bindings._newline"],
    "src/prompt_toolkit/key_binding/bindings/emacs.py": ["load_emacs_bindings._prev", "load_emacs_bindings._next"],
    "src/prompt_toolkit/key_binding/bindings/vi.py": [
        "load_vi_bindings._go_up", "load_vi_bindings._go_down2", "load_vi_bindings._up_in_navigation",
        "load_vi_bindings._go_down", "load_vi_bindings._to_nth_history_line", "load_vi_bindings._back_to_navigation",
        "load_vi_bindings._i", "load_vi_bindings._a"],
    "src/prompt_toolkit/document.py": [
        "Document.__eq__", "Document.current_line", "Document.cursor_position_row", "Document.cursor_position_col",
        "Document.translate_row_col_to_index", "Document.leading_whitespace_in_current_line",
        "Document.is_cursor_at_the_end_of_line", "Document.get_cursor_left_position",
        "Document.get_cursor_right_position", "Document.get_cursor_up_position", "Document.get_cursor_down_position",
        "Document.get_start_of_line_position", "Document.get_end_of_line_position"],
    "src/prompt_toolkit/application/application.py": ["Application._pre_run"],
    "src/prompt_toolkit/key_binding/key_processor.py": ["KeyProcessor._fix_vi_cursor_position"],
}


# ------------------------------------------------------------------ scripted validator
def verdict(spec, text):
    """None = passes, int = reported error position (also used by the oracle)"""
    mode, needle, posmode, arg = spec
    if mode == 0:
        return None
    k = text.find(needle)
    if k < 0:
        return None
    if posmode == 0:
        return arg
    if posmode == 1:
        return k + arg
    return len(text) + arg


class ScriptedValidator(Validator):
    """spec = [mode, needle, posmode, arg]; see VSpec in lean/Drivers/C14.lean"""

    def __init__(self, spec):
        self.spec = spec

    def validate(self, document):
        pos = verdict(self.spec, document.text)
        if pos is not None:
            raise ValidationError(cursor_position=pos, message="scripted")


class GatedValidator(ScriptedValidator):
    """A validator whose `validate_async` really suspends: it waits at a gate that the schedule of
    the case opens (`vrel` / `valdone`); the verdict is the scripted one for the document it was
    given.  `validate` (the synchronous path used by accept) does not wait."""

    def __init__(self, spec):
        super().__init__(spec)
        self.waiting = []       # [(asyncio.Event, (text, cursor))] of validate_async calls in flight
        self.calls = 0

    async def validate_async(self, document):
        ev = asyncio.Event()
        entry = (ev, (document.text, document.cursor_position))
        self.waiting.append(entry)
        self.calls += 1
        try:
            await ev.wait()
        finally:
            self.waiting.remove(entry)
        self.validate(document)

    def in_flight(self):
        return [d for _, d in self.waiting]

    def release(self):
        if self.waiting:
            self.waiting[0][0].set()
            return True
        return False


class BlockingInner(ScriptedValidator):
    """Inner validator for a real `ThreadedValidator`: a call from a worker thread blocks on a
    threading.Event until the schedule releases it; a call from the loop's own thread (the
    synchronous accept path) answers at once."""

    def __init__(self, spec):
        super().__init__(spec)
        self.lock = threading.Lock()
        self.waiting = []       # [(threading.Event, (text, cursor))]
        self.calls = 0
        self.main = threading.get_ident()

    def validate(self, document):
        if threading.get_ident() != self.main:
            ev = threading.Event()
            entry = (ev, (document.text, document.cursor_position))
            with self.lock:
                self.waiting.append(entry)
                self.calls += 1
            try:
                ev.wait(90)
            finally:
                with self.lock:
                    self.waiting.remove(entry)
        super().validate(document)

    def in_flight(self):
        with self.lock:
            return [d for _, d in self.waiting]

    def release(self):
        with self.lock:
            if self.waiting:
                self.waiting[0][0].set()
                return True
        return False

    def release_all(self):
        with self.lock:
            for ev, _ in self.waiting:
                ev.set()


# ---- watchdog for the families that use a real ThreadedValidator (worker threads).
# On the unchanged tree every such case completes within milliseconds.  A case that does not settle
# within SHORT seconds is run once more with LONG seconds (a loaded machine must not look like a
# hang); if it still does not settle, that is reported as a violation on the real code.  After
# BREAK confirmed stalls in one worker process the rest of the family is skipped in that process.
SHORT, LONG, BREAK = 4.0, 30.0, 3
_STALLS = [0]
_LIMIT = [SHORT]
STALL_SIG = ("ThreadedValidator", "verdict never delivered / validation does not complete")


class Stall(Exception):
    """the validation coroutine / its worker thread did not reach a settled state in time"""


class StallResult:
    def __init__(self, msg):
        self.msg = msg


class Skipped:
    pass


async def wait_until(cond, what):
    """poll `cond` (a few loop turns first, then with real time) until the current limit"""
    for _ in range(6):
        await asyncio.sleep(0)
        if cond():
            return
    loop = asyncio.get_running_loop()
    end = loop.time() + _LIMIT[0]
    while not cond():
        if loop.time() > end:
            raise Stall(what)
        await asyncio.sleep(0.001)


def settled(b, inner, calls_before=None):
    """the validation coroutine has ended, or it is waiting for a worker that is blocked in the
    inner validator; an ORPHAN (a worker in the inner validator although the coroutine is not
    running any more: nobody will ever look at its verdict) also counts - it is reported"""
    running = bool(closure_var(b._async_validator, "running"))
    fl = inner.in_flight()
    if not running:
        return True
    return bool(fl) and (calls_before is None or inner.calls > calls_before)


def orphaned(b, inner):
    return (not bool(closure_var(b._async_validator, "running"))) and bool(inner.in_flight())


class Abort(Exception):
    """raised out of prompt_async() when the harness presses Control-C"""


class GatedHistory(InMemoryHistory):
    """InMemoryHistory whose load() hands out one item per released permit."""

    def __init__(self, strs):
        super().__init__(strs)
        self.snapshot = []
        self.yielded = 0
        self.sem = None

    async def load(self):
        if not self._loaded:
            self._loaded_strings = list(self.load_history_strings())
            self._loaded = True
        self.snapshot = list(self._loaded_strings)
        self.yielded = 0
        sem = self.sem = asyncio.Semaphore(0)
        for item in self.snapshot:
            await sem.acquire()
            self.yielded += 1
            yield item


# ------------------------------------------------------------------ per-process loop + app
_LOOP = None
_APP = None


class LoopError(Exception):
    """an exception reached the event loop (e.g. raised by a key handler of the real code)"""


_ERRORS = []


def _loop_exc_handler(loop, context):
    _ERRORS.append((type(context.get("exception")).__name__ + ": " + str(context.get("exception") or context.get("message")))[:200])


def check_errors():
    if _ERRORS:
        raise LoopError(_ERRORS[0])


def get_loop():
    global _LOOP
    if _LOOP is None or _LOOP.is_closed():
        _LOOP = asyncio.new_event_loop()
        _LOOP.set_exception_handler(_loop_exc_handler)
    return _LOOP


class HApp(Application):
    """Application whose `_async_validator()` background tasks can be held back: with `defer` set
    each of them waits for its own start permit (op `vstart`), so that "created but not started"
    is a state the schedule controls.  Everything else goes through Application unchanged."""

    def __init__(self):
        super().__init__(input=DummyInput(), output=DummyOutput())
        self.defer = False
        self.queue = []         # start permits of the held-back validator tasks, oldest first
        self.coros = []         # the held-back coroutines (closed at the end of a case)

    def create_background_task(self, coroutine):
        if self.defer and "async_validator" in getattr(coroutine, "__qualname__", ""):
            ev = asyncio.Event()
            self.queue.append(ev)
            self.coros.append(coroutine)

            async def held():
                try:
                    await ev.wait()
                except BaseException:
                    coroutine.close()
                    raise
                finally:
                    if ev in self.queue:
                        self.queue.remove(ev)
                await coroutine

            return super().create_background_task(held())
        return super().create_background_task(coroutine)


def _get_app():
    global _APP
    if _APP is None:
        _APP = HApp()
    return _APP


async def spin(n=3):
    for _ in range(n):
        await asyncio.sleep(0)


def enc_opt_str(s):
    return "N" if s is None else enc_str(s)


def enc_strs(items):
    items = list(items)
    return " ".join([str(len(items))] + [enc_str(i) for i in items])


VS = {ValidationState.UNKNOWN: "U", ValidationState.VALID: "V", ValidationState.INVALID: "I", None: "U"}


def vtasks(app):
    """number of created `_async_validator()` tasks that did not get their first step yet"""
    n = len(getattr(app, "queue", ()))
    for t in list(app._background_tasks):
        if t.done():
            continue
        co = t.get_coro()
        qn = getattr(co, "__qualname__", "")
        if "async_validator" in qn and inspect.getcoroutinestate(co) == inspect.CORO_CREATED:
            n += 1              # Buffer._create_auto_validate_coroutine.<locals>.async_validator
    return n


def closure_var(fn, name):
    return fn.__closure__[fn.__code__.co_freevars.index(name)].cell_contents


def vrun(b, val):
    """None, or the document the validation in flight was started with; the `running` flag of
    `_only_one_at_a_time` must agree with what the validator sees"""
    running = bool(closure_var(b._async_validator, "running"))
    fl = val.in_flight() if hasattr(val, "in_flight") else []
    if not running and not fl:
        return None
    if running and len(fl) == 1:
        return fl[0]
    return ("?running=%d,in-flight=%d" % (running, len(fl)), -1)


def pre_run(app):
    """the `operate-and-get-next` callables waiting in app.pre_run_callables: the working index each
    of them was registered at (its `new_index` minus one)"""
    out = []
    for c in app.pre_run_callables:
        if "set_working_index" in getattr(c, "__qualname__", ""):
            out.append(closure_var(c, "new_index") - 1)
    return out


def storage_of(h):
    """what is stored, oldest first: InMemoryHistory's list, or - for a FileHistory - what a NEW
    FileHistory object reads back from the file"""
    if isinstance(h, FileHistory):
        return list(FileHistory(h.filename).load_history_strings())[::-1]
    return list(h._storage)


def snap(b, h, app, ehs, gated, val=None, vwt=None):
    if b._load_history_task is None or not gated:
        pending = []
    else:
        pending = h.snapshot[h.yielded:]
    return {"idx": b.working_index, "cur": b.cursor_position, "vstate": VS[b.validation_state],
            "verr": None if b.validation_error is None else b.validation_error.cursor_position,
            "search": b.history_search_text, "pref": b.preferred_column,
            "loading": b._load_history_task is not None, "vtasks": vtasks(app), "vrun": vrun(b, val),
            "vwt": bool(b.validate_while_typing()) if vwt is None else bool(vwt),
            "hloaded": h._loaded, "prerun": pre_run(app),
            "yank": (None if b.yank_nth_arg_state is None else
                     (b.yank_nth_arg_state.history_position, b.yank_nth_arg_state.n,
                      b.yank_nth_arg_state.previous_inserted_word)),
            "ehs": bool(ehs), "work": list(b._working_lines), "hist": list(h.get_strings()),
            "storage": storage_of(h), "pending": list(pending),
            "text": b._working_lines[b.working_index] if -len(b._working_lines) <= b.working_index < len(b._working_lines) else None}


def snap_line(s, out="-"):
    pref = "N" if s["pref"] is None else str(s["pref"])
    verr = "N" if s["verr"] is None else str(s["verr"])
    run = "N" if s["vrun"] is None else "R:%s:%d" % (enc_str(s["vrun"][0]), s["vrun"][1])
    return (f"{s['idx']} {s['cur']} {s['vstate']} {verr} {enc_opt_str(s['search'])} {pref} {int(s['loading'])} "
            f"{s['vtasks']} {run} {int(s['hloaded'])} {int(s['ehs'])} {int(s['vwt'])} "
            f"{' '.join([str(len(s['prerun']))] + [str(x) for x in s['prerun']])} "
            f"{'N' if s['yank'] is None else 'Y:%d:%d:%s' % (s['yank'][0], s['yank'][1], enc_str(s['yank'][2]))} "
            f"W {enc_strs(s['work'])} H {enc_strs(s['hist'])} "
            f"S {enc_strs(s['storage'])} P {enc_strs(s['pending'])} {out}")


# ------------------------------------------------------------------ kind "buf"
class BufRig:
    def __init__(self, case, app):
        self.case = case
        self.app = app
        self.gated = bool(case.get("gated", True))
        self.flags = {"ehs": bool(case["ehs"]), "vwt": bool(case["vwt"]), "keep": False}
        self.tmp = None
        if case.get("hkind") == "file":
            # a FileHistory on a scratch file that already contains the entries (written by another
            # FileHistory object); the loader is the plain History.load
            import tempfile
            fd, self.tmp = tempfile.mkstemp(prefix="c14hist")
            os.close(fd)
            h0 = FileHistory(self.tmp)
            for x in case["hist"]:
                h0.store_string(x)
            self.h = FileHistory(self.tmp)
            self.gated = False
        else:
            self.h = (GatedHistory if self.gated else InMemoryHistory)(list(case["hist"]))
        # vasync: 0 = Validator.validate_async (inline), 1 = gated coroutine, 2 = real ThreadedValidator
        self.vasync = int(case.get("vasync", 0))
        self.manual = case.get("sched") == "manual"
        app.defer = self.manual
        del app.queue[:]
        if self.vasync == 2:
            self.inner = BlockingInner(list(case["val"]))
            self.val = ThreadedValidator(self.inner)
            self.val.in_flight = self.inner.in_flight
        elif self.vasync == 1:
            self.inner = self.val = GatedValidator(list(case["val"]))
        else:
            self.inner = self.val = ScriptedValidator(list(case["val"]))
        self.accepted = []
        self.orphans = []       # documents whose worker-thread verdict nobody waits for
        self.b = Buffer(history=self.h, validator=self.val,
                        enable_history_search=Condition(lambda: self.flags["ehs"]),
                        validate_while_typing=Condition(lambda: self.flags["vwt"]),
                        accept_handler=self._accept, multiline=True)

    def _accept(self, buff):
        self.accepted.append(buff.document.text)
        return self.flags["keep"]

    def snap(self):
        d = snap(self.b, self.h, self.app, self.flags["ehs"], self.gated, self.val, self.flags["vwt"])
        d["orphans"] = list(self.orphans)
        return d

    def running(self):
        return bool(closure_var(self.b._async_validator, "running"))

    async def quiesce(self, calls_before=None):
        """let the loop run until nothing is left to do; with a ThreadedValidator also wait for the
        worker thread: either the validation coroutine has ended or it is blocked in the inner
        validator again"""
        await spin(6)
        if self.vasync == 2:
            await wait_until(lambda: settled(self.b, self.inner, calls_before),
                             "Buffer + ThreadedValidator: the validation coroutine neither ends nor reaches the "
                             "inner validator")
            await spin(6)
            if orphaned(self.b, self.inner):
                # give a worker that is on its way out a moment; on the unchanged tree the coroutine
                # stays `running` until the worker's result has been delivered
                for _ in range(50):
                    await asyncio.sleep(0.001)
                    if not orphaned(self.b, self.inner):
                        break
                else:
                    self.orphans.append(self.inner.in_flight()[0])

    async def apply(self, op):
        """apply one op to the real Buffer; return the out token"""
        b, k = self.b, op[0]
        if k == "ins":
            b.insert_text(op[1])
        elif k == "delb":
            b.delete_before_cursor(op[1])
        elif k == "text":
            b.text = op[1]
        elif k == "cur":
            b.cursor_position = op[1]
        elif k == "left":
            b.cursor_left()
        elif k == "right":
            b.cursor_right()
        elif k == "home":
            b.cursor_position += b.document.get_start_of_line_position(after_whitespace=False)
        elif k == "end":
            b.cursor_position += b.document.get_end_of_line_position()
        elif k == "hb":
            b.history_backward(count=op[1])
        elif k == "hf":
            b.history_forward(count=op[1])
        elif k == "goto":
            b.go_to_history(op[1])
        elif k == "endhist":
            b.history_forward(count=10 ** 100)
            b.go_to_history(len(b._working_lines) - 1)
        elif k == "gotofix":
            # go_to_history with the candidate repair applied from outside (the jump forgets the prefix)
            b.go_to_history(op[1])
            if op[1] < len(b._working_lines):
                b.history_search_text = None
        elif k == "endhistfix":
            b.history_forward(count=10 ** 100)
            b.go_to_history(len(b._working_lines) - 1)
            b.history_search_text = None
        elif k in ("aup", "adown"):
            try:
                (b.auto_up if k == "aup" else b.auto_down)(
                    count=op[1], go_to_start_of_line_if_history_changes=bool(op[2]))
            except AssertionError:
                return "aerr"
        elif k == "ehs":
            self.flags["ehs"] = bool(op[1])
        elif k == "yank":
            (b.yank_last_arg if op[2] else b.yank_nth_arg)(op[1])
        elif k == "vwt":
            self.flags["vwt"] = bool(op[1])
        elif k == "vstart":
            # one held-back `_async_validator()` task gets its first step
            if self.app.queue:
                self.app.queue[0].set()
            await self.quiesce()
        elif k == "vrel":
            # the validation in flight finishes
            n = self.inner.calls if self.vasync == 2 else None
            if self.vasync and self.inner.release():
                if self.vasync == 2:
                    # the released call must be gone before "settled" can be judged
                    await wait_until(lambda: self.inner.calls > n or not self.running(),
                                     "Buffer + ThreadedValidator: the finished worker's verdict is never "
                                     "delivered to the validation coroutine")
                await self.quiesce()
            else:
                await self.quiesce()
        elif k == "validate":
            return "b1" if b.validate(set_cursor=bool(op[1])) else "b0"
        elif k == "avalidate":
            for ev in list(self.app.queue):
                ev.set()
            await self.quiesce()
        elif k == "accept":
            self.flags["keep"] = bool(op[1])
            n = len(self.accepted)
            b.validate_and_handle()
            if len(self.accepted) > n:
                return "acc:" + enc_str(self.accepted[-1])
            return "rej"
        elif k == "append":
            b.append_to_history()
        elif k == "reset":
            b.reset(Document(op[1], op[2]))
        elif k == "reseta":
            b.reset(Document(op[1], op[2]), append_to_history=True)
        elif k == "startload":
            b.load_history_if_not_yet_loaded()
            await spin(4)
        elif k == "loadone":
            h = self.h
            if (self.gated and b._load_history_task is not None and not b._load_history_task.done()
                    and h.sem is not None and h.yielded < len(h.snapshot)):
                y = h.yielded
                h.sem.release()
                for _ in range(20):
                    await asyncio.sleep(0)
                    if h.yielded > y:
                        break
            await spin(4)
        else:
            raise ValueError(op)
        return "-"


def init_lines(case):
    hs = " ".join(enc_str(x) for x in case["hist"])
    return [("init %d %d %d %d %s" % (case["ehs"], case["vwt"], 1 if case.get("vasync") else 0,
                                      1 if case.get("ml") else 0, hs)).rstrip(),
            "val %d %s %d %d" % (case["val"][0], enc_str(case["val"][1]), case["val"][2], case["val"][3])]


def op_line(op):
    k = op[0]
    if k in ("ins", "text"):
        return f"{k} {enc_str(op[1])}"
    if k in ("reset", "reseta"):
        return f"{k} {enc_str(op[1])} {op[2]}"
    if k == "yank":
        return f"yank {'N' if op[1] is None else op[1]} {int(bool(op[2]))}"
    return " ".join(str(int(x)) if isinstance(x, bool) else str(x) for x in op)


def buf_model_lines(case):
    out = init_lines(case)
    gated = case.get("gated", True)
    # natural scheduling: every op that lets the loop turn also gives the created validator tasks
    # their first step; manual scheduling (`sched: manual`): they wait for `vstart` / `avalidate`
    turn = "show" if case.get("sched") == "manual" else "avalidate"
    for op in case["ops"]:
        if op[0] == "startload":
            # the loader's first step and the validator tasks run in the same turns of the loop:
            # only the state after all of them is observable
            out.append("q startload")
            if not gated:
                out.append("q loadall")
            out.append(turn)
        elif op[0] == "loadone":
            out.append("q loadone")
            out.append(turn)
        elif op[0] == "vrel" and turn == "avalidate":
            out.append("q vrel")
            out.append(turn)
        elif op[0] == "vstart" and turn == "avalidate":
            out.append("avalidate")
        else:
            out.append(op_line(op))
    return out


async def buf_trace(case, app):
    """run the case on the real code: list of (op, before, after, out)"""
    rig = BufRig(case, app)
    s0 = rig.snap()
    trace = [(None, None, s0, "-")]
    try:
        for op in case["ops"]:
            before = trace[-1][2]
            o = await rig.apply(op)
            trace.append((op, before, rig.snap(), o))
    finally:
        if rig.vasync == 2:
            rig.inner.release_all()
        for t in list(app._background_tasks):
            t.cancel()
        if rig.b._load_history_task is not None:
            rig.b._load_history_task.cancel()
        await spin(3)
        app.defer = False
        del app.queue[:]
        for co in app.coros:
            co.close()
        del app.coros[:]
        if rig.tmp:
            try:
                os.unlink(rig.tmp)
            except OSError:
                pass
    return trace


def buf_lines_from_trace(case, trace):
    gated = case.get("gated", True)
    l0 = snap_line(trace[0][2])
    out = [l0, l0]
    for op, _before, after, o in trace[1:]:
        if op[0] == "startload":
            out.append("-")
            if not gated:
                out.append("-")
            out.append(snap_line(after))
        elif op[0] == "loadone":
            out.append("-")
            out.append(snap_line(after))
        elif op[0] == "vrel" and case.get("sched") != "manual":
            out.append("-")
            out.append(snap_line(after))
        else:
            out.append(snap_line(after, o))
    return out


# ------------------------------------------------------------------ kind "sess"
KEYSEQ = {
    "backspace": "\x7f", "left": "\x1b[D", "right": "\x1b[C", "home": "\x01", "end": "\x05",
    "up": "\x1b[A", "down": "\x1b[B", "c-p": "\x10", "c-n": "\x0e",
    "prevhist": "\x1b[1;5A", "nexthist": "\x1b[1;5B", "pgup": "\x1b[5~", "pgdn": "\x1b[6~",
    "beginhist": "\x1b<", "endhist": "\x1b>", "enter": "\r", "escenter": "\x1b\r", "c-o": "\x0f",
}
ARG_KEYS = ("up", "down", "c-p", "prevhist", "nexthist")


def arg_prefix(a):
    if a < 0:
        return "\x1b-" + ("" if a == -1 else "".join("\x1b" + d for d in str(-a)))
    return "".join("\x1b" + d for d in str(a))


def key_bytes(key):
    name = key[0]
    if name == "char":
        return key[1]
    if name in ("yanknth", "yanklast"):
        pre = "" if key[1] is None else arg_prefix(key[1])
        return pre + ("\x1b\x19" if name == "yanknth" else "\x1b." if len(key) < 3 or not key[2] else "\x1b_")
    pre = ""
    if name in ARG_KEYS and len(key) > 1 and key[1] != 1:
        a = key[1]
        if a < 0:
            pre = "\x1b-"
            if a != -1:
                pre += "".join("\x1b" + d for d in str(-a))
        else:
            pre = "".join("\x1b" + d for d in str(a))
    alt = len(key) > 2 and key[2]
    seq = KEYSEQ["pgup" if name == "prevhist" and alt else "pgdn" if name == "nexthist" and alt else name]
    return pre + seq


def key_model_line(key):
    name = key[0]
    if name == "valdone":
        return "key valdone"
    if name in ("yanknth", "yanklast"):
        return f"key {name} {'N' if key[1] is None else key[1]}"
    if name == "char":
        return "key char " + enc_str(key[1])
    if name in ARG_KEYS:
        return f"key {name} {key[1] if len(key) > 1 else 1}"
    return "key " + name


def vi_key_bytes(key):
    name = key[0]
    if name == "char":
        return key[1]
    if name in ("k", "j", "G"):
        n = key[1]
        return ("" if (n == 1 and name != "G") else str(n)) + name
    if name in ("up", "down"):
        n = key[1]
        return ("" if n == 1 else str(n)) + KEYSEQ[name]
    return {"backspace": "\x7f", "escape": "\x1b", "i": "i", "a": "a", "enter": "\r"}[name]


def vi_key_model_line(key):
    name = key[0]
    if name == "valdone":
        return "vkey valdone"
    if name == "char":
        return "vkey char " + enc_str(key[1])
    if name in ("k", "j", "G", "up", "down"):
        return f"vkey {name} {key[1]}"
    return "vkey " + name


def sess_model_lines(case):
    out = init_lines(case)
    for p in case["prompts"]:
        if p.get("accept_default"):
            out.append("promptacc " + enc_str(p["default"]))
            continue
        out.append("prompt " + enc_str(p["default"]))
        for key in p["keys"]:
            out.append(vi_key_model_line(key) if case["kind"] == "vi" else key_model_line(key))
    return out


async def settle(task, n=8):
    for _ in range(n):
        if task.done():
            break
        await asyncio.sleep(0)


async def finish(task):
    try:
        return await asyncio.wait_for(task, 40)     # generous: a loaded machine must not look like a hang
    except asyncio.TimeoutError:
        task.cancel()
        raise


async def sess_trace(case):
    """run the case on a real PromptSession: (lines, events)"""
    holder = [None, None]
    del _ERRORS[:]
    try:
        return await sess_trace1(case, holder)
    finally:
        if holder[1] is not None:
            holder[1].release_all()
        t = holder[0]
        if t is not None and not t.done():
            t.cancel()
            try:
                await asyncio.wait_for(t, 20)
            except BaseException:
                pass
        del _ERRORS[:]


async def sess_trace1(case, holder):
    lines, events = [], []
    vi = case["kind"] == "vi"
    with create_pipe_input() as inp:
        h = InMemoryHistory(list(case["hist"]))
        va = int(case.get("vasync", 0))
        inner = None
        orphans = []
        if va == 2:
            # a real ThreadedValidator: the worker thread blocks in the inner validator until `valdone`
            inner = BlockingInner(list(case["val"]))
            val = ThreadedValidator(inner)
            val.in_flight, val.release = inner.in_flight, inner.release
            holder[1] = inner
        else:
            val = (GatedValidator if va else ScriptedValidator)(list(case["val"]))

        async def thread_settle(task):
            """with worker threads: wait (real time, under the watchdog) until the validation coroutine
            has ended or is waiting for a worker that sits in the inner validator"""
            if va != 2 or task.done() or app.is_done:
                return
            await wait_until(lambda: task.done() or app.is_done or settled(b, inner),
                             "PromptSession + ThreadedValidator: the validation coroutine neither ends nor "
                             "reaches the inner validator")
            await settle(task, 4)
            if not (task.done() or app.is_done) and orphaned(b, inner):
                for _ in range(50):
                    await asyncio.sleep(0.001)
                    if not orphaned(b, inner):
                        break
                else:
                    orphans.append(inner.in_flight()[0])

        def check_errors():
            """an exception that reached the event loop is a harness-level error - except a
            ValidationError of the threaded validator: that is a verdict nobody received"""
            if va == 2 and _ERRORS and all("ValidationError" in e for e in _ERRORS):
                orphans.append(("<ValidationError reached the event loop's exception handler: " + _ERRORS[0] + ">", -1))
                del _ERRORS[:]
                return
            globals()["check_errors"]()

        async def drain_workers():
            """the prompt has ended: its validation task was cancelled; let the worker go"""
            if va == 2:
                inner.release_all()
                await wait_until(lambda: not inner.in_flight(), "worker thread does not leave the inner validator")

        session = PromptSession(history=h, input=inp, output=DummyOutput(),
                                validator=val,
                                enable_history_search=bool(case["ehs"]),
                                validate_while_typing=bool(case["vwt"]), interrupt_exception=Abort,
                                multiline=bool(case.get("ml")),
                                editing_mode=EditingMode.VI if vi else EditingMode.EMACS)
        b, app = session.default_buffer, session.app
        if vi:
            # a lone Escape is flushed by the input / key-processor timeouts: make them immediate
            app.ttimeoutlen = 0
            app.timeoutlen = 0

        def navflag():
            from prompt_toolkit.key_binding.vi_state import InputMode
            return "1 " if app.vi_state.input_mode == InputMode.NAVIGATION else "0 "

        def sn():
            d = snap(b, h, app, case["ehs"], False, val, case["vwt"])
            d["orphans"] = list(orphans)
            return d

        l0 = snap_line(sn())
        lines += [l0, l0]
        for p in case["prompts"]:
            before = sn()
            if p.get("accept_default"):
                task = asyncio.ensure_future(session.prompt_async(default=p["default"], accept_default=True,
                                                                   set_exception_handler=False))
                holder[0] = task
                await settle(task, 12)
                await thread_settle(task)
                check_errors()
                if task.done() or app.is_done:
                    res = await finish(task)
                    await drain_workers()
                    after = sn()
                    lines.append(snap_line(after, "acc:" + enc_str(res)))
                    events.append({"ev": "accept", "text": p["default"], "result": res, "before": before,
                                   "after": after, "site": "prompt(accept_default=True)"})
                else:
                    after = sn()
                    lines.append(snap_line(after, "rej"))
                    events.append({"ev": "reject", "text": p["default"], "before": before, "after": after,
                                   "fresh": True, "site": "prompt(accept_default=True)"})
                    inp.send_text("\x03")
                    try:
                        await finish(task)
                    except Abort:
                        pass
                    await drain_workers()
                continue
            task = asyncio.ensure_future(session.prompt_async(default=p["default"], set_exception_handler=False))
            holder[0] = task
            await settle(task, 10)
            await thread_settle(task)
            check_errors()
            s = sn()
            lines.append(snap_line(s))
            events.append({"ev": "start", "after": s, "default": p["default"]})
            done = False
            for key in p["keys"]:
                if done:
                    lines.append("after-accept")
                    continue
                before = sn()
                before_nav = vi and navflag().startswith("1")
                if key[0] == "valdone":
                    # not a key: the validation in flight finishes
                    ncalls = inner.calls if va == 2 else None
                    if val.release() and va == 2:
                        await wait_until(lambda: inner.calls > ncalls or not closure_var(b._async_validator, "running"),
                                         "PromptSession + ThreadedValidator: the finished worker's verdict is never "
                                         "delivered to the validation coroutine")
                else:
                    inp.send_text(vi_key_bytes(key) if vi else key_bytes(key))
                await settle(task, 12 if vi else 10)
                await thread_settle(task)
                check_errors()
                nv = navflag() if vi else ""
                # the accepting keys: Enter (in a multiline prompt only from vi navigation mode), Esc Enter
                was_nav = before_nav if vi else False
                accepting = (key[0] in ("escenter", "c-o") or
                             (key[0] == "enter" and (not case.get("ml") or was_nav)))
                if not accepting and not (task.done() or app.is_done):
                    after = sn()
                    lines.append(snap_line(after, nv + "-"))
                    events.append({"ev": "key", "key": key, "before": before, "after": after})
                    continue
                if task.done() or app.is_done:
                    res = await finish(task)
                    await drain_workers()
                    done = True
                    after = sn()
                    lines.append(snap_line(after, nv + "acc:" + enc_str(res)))
                    events.append({"ev": "accept", "text": before["text"], "result": res, "before": before,
                                   "after": after, "site": "accept-line", "accepting": accepting, "key": key})
                elif accepting:
                    after = sn()
                    lines.append(snap_line(after, nv + "rej"))
                    events.append({"ev": "reject", "text": before["text"], "before": before, "after": after,
                                   "fresh": before["vstate"] == "U", "site": "accept-line",
                                   "vi_nav": nv.startswith("1")})
                else:
                    after = sn()
                    lines.append(snap_line(after, nv + "-"))
                    events.append({"ev": "key", "key": key, "before": before, "after": after})
            if not done:
                before = sn()
                inp.send_text("\x03")
                try:
                    await finish(task)
                except Abort:
                    pass
                await drain_workers()
                events.append({"ev": "abort", "before": before, "after": sn()})
    return lines, events


# ------------------------------------------------------------------ plugin API
_CACHE = {"key": None, "val": None}


def run_real(case):
    """trace of the real code for this case (memoised for the impl_lines / oracle pair)"""
    key = json.dumps(case, sort_keys=True)
    if _CACHE["key"] == key:
        if isinstance(_CACHE["val"], BaseException):
            raise _CACHE["val"]
        return _CACHE["val"]
    try:
        val = run_real1(case)
    except Exception as e:
        _CACHE["key"], _CACHE["val"] = key, e
        raise
    _CACHE["key"], _CACHE["val"] = key, val
    return val


def threaded(case):
    return case.get("vasync") == 2


def run_real1(case):
    """the families with real worker threads run under the watchdog (see SHORT / LONG / BREAK)"""
    if not threaded(case):
        return run_real2(case)
    if _STALLS[0] >= BREAK:
        return Skipped()
    try:
        _LIMIT[0] = SHORT
        return run_real2(case)
    except (Stall, asyncio.TimeoutError):
        pass
    try:
        _LIMIT[0] = LONG            # confirm once, patiently: load must not produce a false alarm
        return run_real2(case)
    except (Stall, asyncio.TimeoutError) as e:
        _STALLS[0] += 1
        return StallResult(str(e) or type(e).__name__)
    finally:
        _LIMIT[0] = SHORT


def run_real2(case):
    loop = get_loop()
    asyncio.set_event_loop(loop)
    if case["kind"] == "buf":
        app = _get_app()

        async def go():
            with set_app(app):
                return await buf_trace(case, app)

        return loop.run_until_complete(go())
    return loop.run_until_complete(asyncio.wait_for(sess_trace(case), 12 * _LIMIT[0] if threaded(case) else 200))


def real_words(text):
    """`words` of Buffer.yank_nth_arg for one history line, computed with the real pattern object"""
    import prompt_toolkit.buffer as pb
    words = [w.strip() for w in pb._QUOTED_WORDS_RE.split(text)]
    return [w for w in words if w]


def model_lines(case):
    if case["kind"] == "words":
        return ["words " + enc_str(t) for t in case["texts"]]
    if case["kind"] == "buf":
        return buf_model_lines(case)
    return sess_model_lines(case)


def impl_lines(case):
    if case["kind"] == "words":
        return [enc_strs(real_words(t)) for t in case["texts"]]
    r = run_real(case)
    if isinstance(r, StallResult):
        return ["stall: " + r.msg[:200]]
    if isinstance(r, Skipped):
        return ["skipped: %d stalls of the threaded-validator family already confirmed in this worker" % BREAK]
    if case["kind"] == "buf":
        return buf_lines_from_trace(case, r)
    return r[0]


# ------------------------------------------------------------------ generators
HALPHA = ["a", "ab", "b", "a\nb"]
PAIR_OPS = [["hb", 1], ["hb", 2], ["hb", 0], ["hb", -1], ["hf", 1], ["hf", 2], ["aup", 1, 0], ["adown", 1, 0],
            ["aup", 2, 1], ["goto", 0], ["goto", 1], ["endhist"], ["ins", "x"], ["delb", 1], ["home"],
            ["accept", 1], ["accept", 0]]


def exhaustive_cases(maxn):
    for n in range(maxn + 1):
        for hist in itertools.product(HALPHA, repeat=n):
            for typed in ("", "a", "ab"):
                for ehs in (0, 1):
                    pre = [["startload"]] + [["loadone"]] * n + ([["ins", typed]] if typed else [])
                    for o1 in PAIR_OPS:
                        for o2 in PAIR_OPS:
                            yield {"kind": "buf", "hist": list(hist), "ehs": ehs, "vwt": 0, "gated": True,
                                   "val": [1, "x", 1, 1], "ops": pre + [o1, o2]}


# --- the loader racing with navigation and edits: the history is only partly loaded
LOAD_OPS = [["hb", 1], ["hf", 1], ["aup", 1, 0], ["adown", 1, 0], ["ins", "x"], ["delb", 1], ["goto", 0],
            ["endhist"], ["accept", 1], ["accept", 0], ["loadone"], ["hb", 2]]


def partial_load_cases(maxn):
    """j < n of the n history entries delivered, then every pair of ops (loader item included)"""
    for n in range(1, maxn + 1):
        for hist in itertools.product(HALPHA, repeat=n):
            for j in range(n):
                for typed in (("", "a") if n < 2 else ("a",)):
                    for ehs in (0, 1):
                        pre = [["startload"]] + [["loadone"]] * j + ([["ins", typed]] if typed else [])
                        for o1 in LOAD_OPS:
                            for o2 in LOAD_OPS:
                                yield {"kind": "buf", "hist": list(hist), "ehs": ehs, "vwt": 0, "gated": True,
                                       "val": [1, "x", 1, 1], "ops": pre + [list(o1), list(o2), ["loadone"]]}


# --- FileHistory: what is appended must be what a new FileHistory object reads back
FTEXTS = ["a", "a\nb", "a\n", "\nb", "a\n\nb", "a\rb", "a\r\nb", "a\x0bb", "a\x0cb", "a\x1cb", "a\x85b", "a\u2028b",
          "+a", "#a", "# 2024-01-01 00:00:00.000000", " a ", "é世", "a\tb", "x", "\n", "\r"]


def file_history_cases(rng, n):
    for t in FTEXTS:
        for keep in (0, 1):
            yield {"kind": "buf", "hkind": "file", "hist": ["q"], "ehs": 0, "vwt": 0, "gated": False,
                   "val": [1, "x", 1, 1], "ops": [["startload"], ["text", t], ["accept", keep], ["startload"], ["hb", 1]]}
    for _ in range(n):
        hist = [rng.choice(FTEXTS) for _ in range(rng.randrange(0, 4))]
        hist = [h for h in hist if h]
        ops = [["startload"]]
        for _ in range(rng.randrange(1, 5)):
            ops.append(["text", rng.choice(FTEXTS)])
            if rng.random() < 0.3:
                ops.append(["ins", rng.choice(["\n", "\r", "a", "\x0c"])])
            ops.append(["accept", rng.randrange(2)])
            if rng.random() < 0.7:
                ops.append(["startload"])
                ops.append(["hb", rng.choice([1, 2])])
        yield {"kind": "buf", "hkind": "file", "hist": hist, "ehs": 0, "vwt": 0, "gated": False,
               "val": [1, "x", 1, 1], "ops": ops}


# --- the candidate repair of go_to_history (the jump forgets the search prefix), applied from outside
FIX_OPS = [["hb", 1], ["hf", 1], ["ins", "x"], ["gotofix", 0], ["endhistfix"], ["aup", 1, 0], ["gotofix", 1]]


def gotofix_cases(maxn):
    for n in range(1, maxn + 1):
        for hist in itertools.product(HALPHA, repeat=n):
            for typed in (("", "a") if n < 2 else ("a",)):
                pre = [["startload"]] + [["loadone"]] * n + ([["ins", typed]] if typed else [])
                for seq in itertools.product(FIX_OPS, repeat=3):
                    yield {"kind": "buf", "hist": list(hist), "ehs": 1, "vwt": 0, "gated": True,
                           "val": [0, "x", 0, 0], "ops": pre + [list(o) for o in seq] + [["hb", 1], ["hf", 1]]}


# --- yank-nth-arg / yank-last-arg: reading the history
YLINES = ["a b c", "x 'q r' y", "one", ' "u v"  w ']
Y_OPS = [["yank", None, 0], ["yank", None, 1], ["yank", 0, 0], ["yank", 2, 1], ["yank", -1, 0], ["ins", "z"],
         ["left"]]
WALPHA = ["a", " ", '"', "'", "\n", "b"]
WEXTRA = ["\t", "\x0b", "\x0c", "\r", "\x1c", "\x1f", "\x85", "\xa0", "\u2003", "\u200b", "\u3000", "é", "\\"]


def yank_exhaustive_cases():
    hists = [[]] + [[a] for a in YLINES] + [[a, b] for a in YLINES for b in YLINES]
    for hist in hists:
        pre = [["startload"]] + [["loadone"]] * len(hist)
        for seq in itertools.product(Y_OPS, repeat=3):
            yield {"kind": "buf", "hist": list(hist), "ehs": 0, "vwt": 0, "gated": True, "val": [0, "x", 0, 0],
                   "ops": pre + [list(o) for o in seq]}


def words_cases(maxlen, rng, nrand):
    """the word splitter of yank-nth-arg against the real `_QUOTED_WORDS_RE`: all strings over
    {a, space, double quote, single quote, line break, b} up to maxlen, then random ones with the
    other whitespace characters of the runtime"""
    batch = []
    for n in range(maxlen + 1):
        for t in itertools.product(WALPHA, repeat=n):
            batch.append("".join(t))
            if len(batch) == 400:
                yield {"kind": "words", "texts": batch}
                batch = []
    for _ in range(nrand):
        batch.append("".join(rng.choice(WALPHA + WEXTRA) for _ in range(rng.randrange(0, 14))))
        if len(batch) == 400:
            yield {"kind": "words", "texts": batch}
            batch = []
    if batch:
        yield {"kind": "words", "texts": batch}


def rand_yank(rng):
    return ["yank", rng.choice([None, None, None, 0, 1, 2, -1, -2, 3, 7]), rng.randrange(2)]


# --- asynchronous validation: every schedule of edits / validator progress / accept
AV_OPS = [["ins", "x"], ["ins", "a"], ["delb", 1], ["left"], ["vstart"], ["vrel"], ["accept", 1], ["accept", 0],
          ["validate", 1], ["hb", 1], ["vwt", 0], ["avalidate"]]
AV_PRE = [[], [["ins", "a"]], [["ins", "a"], ["vstart"]]]


def async_exhaustive_cases(n):
    """gated validator (rejects texts containing 'x'), validate_while_typing on, manual scheduling:
    all op sequences of length n after: nothing typed / 'a' typed, its validator task created /
    that task started and in flight"""
    for hist in ([], ["ab"]):
        for pre in AV_PRE:
            for seq in itertools.product(AV_OPS, repeat=n):
                yield {"kind": "buf", "hist": list(hist), "ehs": 0, "vwt": 1, "gated": False, "vasync": 1,
                       "sched": "manual", "val": [1, "x", 1, 1],
                       "ops": [["startload"]] + [list(o) for o in pre] + [list(o) for o in seq]}


def rand_async_ops(rng, n):
    ops = []
    for _ in range(n):
        r = rng.randrange(100)
        if r < 22:
            ops.append(["ins", rng.choice(["x", "a", "b", "x", "\n"])])
        elif r < 30:
            ops.append(["delb", rng.choice([1, 1, 2])])
        elif r < 36:
            ops.append([rng.choice(["left", "right", "home", "end"])])
        elif r < 52:
            ops.append(["vstart"])
        elif r < 68:
            ops.append(["vrel"])
        elif r < 78:
            ops.append(["accept", rng.randrange(2)])
        elif r < 82:
            ops.append(["validate", rng.randrange(2)])
        elif r < 88:
            ops.append([rng.choice(["hb", "hf"]), rng.choice([1, 1, 2])])
        elif r < 91:
            ops.append(["vwt", rng.randrange(2)])
        elif r < 94:
            ops.append(["avalidate"])
        elif r < 96:
            t = rand_text(rng)
            ops.append([rng.choice(["reset", "reseta"]), t, rng.randrange(0, len(t) + 1)])
        elif r < 98:
            ops.append(["text", rand_text(rng)])
        else:
            ops.append(["cur", rng.randrange(-1, 5)])
    return ops


def rand_async_case(rng, threaded=False):
    """random schedules with a validator that really suspends (gated coroutine, or a real
    ThreadedValidator whose worker thread blocks until released)"""
    n = rng.choice([0, 1, 2, 3])
    hist = [rng.choice(RT[1:]) for _ in range(n)]
    val = rand_val(rng)
    val[0] = 1
    if val[1] == "":
        val[1] = "x"
    ops = [["startload"]] if rng.random() < 0.8 else []
    ops += rand_async_ops(rng, rng.randrange(3, 9 if threaded else 25))
    return {"kind": "buf", "hist": hist, "ehs": rng.randrange(2), "vwt": rng.choice([1, 1, 1, 0]), "gated": False,
            "vasync": 2 if threaded else 1, "sched": "manual", "val": val, "ops": ops}


RT = ["", "a", "ab", "b", "a\nb", "ab\nc", "abc", "ba", "é", "世a", "x", "ax", "a b", " a", "b ", "a 'b c' d"]


def rand_text(rng):
    return rng.choice(RT)


def rand_val(rng):
    m = rng.choice([0, 0, 1, 1, 1])
    needle = rng.choice(["x", "a", "", "b", "\n"])
    return [m, needle, rng.randrange(3), rng.choice([-2, -1, 0, 1, 2, 3, 7])]


def rand_buf_op(rng):
    k = rng.randrange(100)
    cnt = rng.choice([1, 1, 1, 2, 2, 3, 0, -1, 5, 10 ** 3])
    if k < 14:
        return ["hb", cnt]
    if k < 26:
        return ["hf", cnt]
    if k < 36:
        return ["aup", rng.choice([1, 1, 2, 3, 0, -1]), rng.randrange(2)]
    if k < 46:
        return ["adown", rng.choice([1, 1, 2, 3, 0, -1]), rng.randrange(2)]
    if k < 50:
        return ["goto", rng.randrange(0, 6)]
    if k < 53:
        return ["endhist"]
    if k < 61:
        return ["ins", rng.choice(["a", "b", "x", "ab", "\n", "é", " "])]
    if k < 66:
        return ["delb", rng.choice([1, 1, 2, 5])]
    if k < 69:
        return ["text", rand_text(rng)]
    if k < 73:
        return ["cur", rng.randrange(-1, 6)]
    if k < 79:
        return [rng.choice(["left", "right", "home", "end"])]
    if k < 81:
        return ["ehs", rng.randrange(2)]
    if k < 83:
        return ["validate", rng.randrange(2)]
    if k < 85:
        return ["avalidate"]
    if k < 89:
        return ["accept", rng.randrange(2)]
    if k < 91:
        return rand_yank(rng)
    if k < 92:
        return ["append"]
    if k < 94:
        t = rand_text(rng)
        return [rng.choice(["reset", "reset", "reseta"]), t, rng.randrange(0, len(t) + 1)]
    if k < 96:
        return ["startload"]
    return ["loadone"]


def rand_buf_case(rng):
    n = rng.choice([0, 1, 2, 3, 3, 4, 5, 8])
    hist = [rng.choice(RT[1:]) if rng.random() < 0.9 else "" for _ in range(n)]
    if n >= 2 and rng.random() < 0.4:
        hist[rng.randrange(n)] = hist[rng.randrange(n)]   # duplicates
    gated = rng.random() < 0.8
    ops = []
    if rng.random() < 0.85:
        ops.append(["startload"])
        if gated:
            ops += [["loadone"]] * rng.choice([n, n, n, max(0, n - 1), n // 2, 0])
    for _ in range(rng.randrange(1, 30)):
        op = rand_buf_op(rng)
        ops.append(op)
        if op[0] in ("hb", "hf") and rng.random() < 0.5:
            # back k / forward k pairs for the oracle's round-trip clause
            ops.append(["hf" if op[0] == "hb" else "hb", op[1]])
        if op[0] in ("reset", "reseta") or (op[0] == "accept" and op[1] == 0):
            if rng.random() < 0.8:
                ops.append(["startload"])
                if gated:
                    ops += [["loadone"]] * rng.randrange(0, n + 3)
    case = {"kind": "buf", "hist": hist, "ehs": rng.randrange(2), "vwt": rng.choice([0, 0, 1]),
            "gated": gated, "val": rand_val(rng), "ops": ops}
    if rng.random() < 0.35:
        # the same kind of session with a validator that suspends, under the loop's own scheduling:
        # every op that lets the loop turn also starts the created validator tasks
        case["vasync"] = 1
        case["vwt"] = rng.choice([0, 1, 1])
        for i in range(len(ops) - 1, -1, -1):
            if rng.random() < 0.15:
                ops.insert(i, rng.choice([["vrel"], ["vrel"], ["avalidate"], ["vwt", rng.randrange(2)]]))
    return case


def rand_key(rng):
    k = rng.randrange(100)
    arg = rng.choice([1, 1, 1, 1, 2, 3, 12, 0, -1, -2])
    harg = rng.choice([1, 1, 1, 2, 3, 0, -1, -2, 12])
    if k < 22:
        return ["up", arg]
    if k < 38:
        return ["down", arg]
    if k < 43:
        return ["c-p", arg]
    if k < 47:
        return ["c-n"]
    if k < 55:
        return ["prevhist", harg, rng.randrange(2)]
    if k < 62:
        return ["nexthist", harg, rng.randrange(2)]
    if k < 65:
        return ["beginhist"]
    if k < 68:
        return ["endhist"]
    if k < 82:
        return ["char", rng.choice(["a", "b", "x", "c", "é", " "])]
    if k < 87:
        return ["backspace"]
    if k < 91:
        return [rng.choice(["left", "right", "home", "end"])]
    if k < 94:
        return [rng.choice(["yanknth", "yanklast"]), rng.choice([None, None, None, 0, 1, 2, -1, 3]), rng.randrange(2)]
    if k < 97:
        return ["c-o"]
    return ["enter"]


def sprinkle_valdone(rng, case):
    """make the session's validator one that suspends and let validations finish at random
    points between the keys"""
    case["vasync"] = 1
    case["vwt"] = rng.choice([1, 1, 1, 0])
    for p in case["prompts"]:
        keys = p["keys"]
        for i in range(len(keys), -1, -1):
            if rng.random() < 0.25:
                keys.insert(i, ["valdone"])
    return case


def rand_threaded_sess_case(rng):
    """a PromptSession whose validator is a real ThreadedValidator (validate-while-typing on): keys,
    background verdicts arriving (`valdone`) before and after Enter"""
    case = rand_sess_case(rng)
    while case.get("ml") or any(p.get("accept_default") for p in case["prompts"]):
        case = rand_sess_case(rng)
    sprinkle_valdone(rng, case)
    case["vasync"] = 2
    case["vwt"] = 1
    case["val"] = [1, rng.choice(["x", "a", "b"]), rng.randrange(3), rng.choice([-1, 0, 1, 2])]
    for p in case["prompts"]:
        keys = p["keys"]
        # the pattern of the property: type, let the verdict arrive, then Enter
        if rng.random() < 0.7:
            at = len(keys) - 1 if keys and keys[-1][0] in ("enter", "escenter") else len(keys)
            keys[at:at] = [["char", rng.choice(["x", "a", "b", "c"])], ["valdone"], ["valdone"]]
    return case


def rand_sess_case(rng):
    n = rng.choice([0, 1, 2, 3, 3, 4, 6])
    hist = [rng.choice(RT[1:]) for _ in range(n)]
    if n >= 2 and rng.random() < 0.4:
        hist[rng.randrange(n)] = hist[rng.randrange(n)]
    prompts = []
    ml = rng.random() < 0.3
    for _ in range(rng.randrange(1, 5)):
        if rng.random() < 0.12:
            d = (hist[-1] if hist else "a") if rng.random() < 0.5 else rand_text(rng)
            prompts.append({"default": d, "accept_default": True, "keys": []})
            continue
        keys = []
        for _ in range(rng.randrange(1, 10)):
            key = rand_key(rng)
            keys.append(key)
            if key[0] in ("prevhist", "nexthist") and rng.random() < 0.4:
                keys.append(["nexthist" if key[0] == "prevhist" else "prevhist", key[1], 0])
        if ml:
            for i in range(len(keys), -1, -1):
                if rng.random() < 0.12:
                    keys.insert(i, rng.choice([["enter"], ["char", " "]]))
        if rng.random() < 0.9:
            keys.append(["escenter"] if ml or rng.random() < 0.15 else ["enter"])
        prompts.append({"default": rng.choice(["", "", "", "a", "ab", "a\nb"]), "keys": keys})
    val = rand_val(rng)
    if val[0] == 1 and val[1] == "":
        val[1] = "x"
    case = {"kind": "sess", "ml": int(ml), "hist": hist, "ehs": rng.randrange(2), "vwt": rng.choice([0, 1]), "val": val,
            "prompts": prompts}
    if rng.random() < 0.4:
        sprinkle_valdone(rng, case)
    return case


def rand_vi_case(rng):
    n = rng.choice([0, 1, 2, 3, 3, 4, 6])
    hist = [rng.choice(RT[1:]) for _ in range(n)]
    if n >= 2 and rng.random() < 0.4:
        hist[rng.randrange(n)] = hist[rng.randrange(n)]
    prompts = []
    ml = rng.random() < 0.3
    for _ in range(rng.randrange(1, 4)):
        nav = False
        keys = []
        for _ in range(rng.randrange(1, 12)):
            r = rng.randrange(100)
            arg = rng.choice([1, 1, 1, 2, 3, 12])
            if not nav:
                if r < 30:
                    keys.append(["char", rng.choice(["a", "b", "x", "c", "k", "j", " "])])
                elif r < 38:
                    keys.append(["backspace"])
                elif r < 55:
                    keys.append(["up", 1])
                elif r < 65:
                    keys.append(["down", 1])
                elif r < 95:
                    keys.append(["escape"]); nav = True
                else:
                    keys.append(["enter"])
                    if ml and rng.random() < 0.5:
                        keys.append(["char", " "])
            else:
                if r < 30:
                    keys.append(["k", arg])
                elif r < 50:
                    keys.append(["j", arg])
                elif r < 58:
                    keys.append(["up", arg])
                elif r < 65:
                    keys.append(["down", arg])
                elif r < 75:
                    keys.append(["G", rng.choice([1, 1, 2, 3, 5, 9])])
                elif r < 80:
                    keys.append(["escape"])
                elif r < 87:
                    keys.append(["i"]); nav = False
                elif r < 94:
                    keys.append(["a"]); nav = False
                else:
                    keys.append(["enter"])
        if rng.random() < 0.9:
            if ml and not nav:
                keys.append(["escape"])
            keys.append(["enter"])
        prompts.append({"default": rng.choice(["", "", "", "a", "ab", "a\nb"]), "keys": keys})
    val = rand_val(rng)
    if val[0] == 1 and val[1] == "":
        val[1] = "x"
    case = {"kind": "vi", "ml": int(ml), "hist": hist, "ehs": rng.randrange(2), "vwt": rng.choice([0, 1]), "val": val,
            "prompts": prompts}
    if rng.random() < 0.4:
        sprinkle_valdone(rng, case)
    return case


def _all_cases(tier, rng):
    maxn = 2 if tier == "quick" else 3
    yield from exhaustive_cases(maxn)
    yield from partial_load_cases(maxn)
    yield from file_history_cases(rng, 150 if tier == "quick" else 3000)
    yield from gotofix_cases(2)
    yield from yank_exhaustive_cases()
    yield from words_cases(5 if tier == "quick" else 6, rng, 2000 if tier == "quick" else 60000)
    yield from async_exhaustive_cases(3 if tier == "quick" else 4)
    for _ in range(1500 if tier == "quick" else 30000):
        yield rand_async_case(rng)
    for _ in range(40 if tier == "quick" else 600):
        yield rand_async_case(rng, threaded=True)
    nbuf = 2500 if tier == "quick" else 45000
    for _ in range(nbuf):
        yield rand_buf_case(rng)
    nsess = 200 if tier == "quick" else 5000
    for _ in range(nsess):
        yield rand_sess_case(rng)
    nvi = 100 if tier == "quick" else 2500
    for _ in range(nvi):
        yield rand_vi_case(rng)
    for _ in range(40 if tier == "quick" else 500):
        yield rand_threaded_sess_case(rng)


def _expensive(case):
    """whole PromptSessions, real worker threads, scratch files, batches of 400 strings: two orders
    of magnitude dearer than a method-level case"""
    return case["kind"] != "buf" or case.get("vasync") == 2 or case.get("hkind") == "file"


def cases(tier, rng):
    """all families; the expensive cases are spread evenly through the list (core evaluates the
    list in consecutive chunks, one worker per chunk)"""
    cheap, dear = [], []
    for c in _all_cases(tier, rng):
        (dear if _expensive(c) else cheap).append(c)
    step = max(1, len(cheap) // (len(dear) + 1))
    it = iter(dear)
    for i, c in enumerate(cheap):
        if i % step == 0:
            e = next(it, None)
            if e is not None:
                yield e
        yield c
    yield from it


# ------------------------------------------------------------------ oracle
# The property restated over what the REAL objects show before / after every step
# (written without reference to the Lean model).
NAV_OPS = ("hb", "hf", "goto", "endhist", "gotofix", "endhistfix", "aup", "adown", "left", "right", "home", "end", "cur", "ehs",
           "validate", "avalidate", "vwt", "vstart", "vrel")
EDIT_OPS = ("ins", "delb", "text", "yank")
KEY_NAV = ("up", "down", "c-p", "c-n", "prevhist", "nexthist", "beginhist", "endhist", "left", "right", "home", "end",
           "k", "j", "G", "escape", "i", "a", "valdone")
KEY_EDIT = ("char", "backspace", "yanknth", "yanklast")
STEP_NAV = ("hb", "hf", "aup", "adown", "up", "down", "c-p", "c-n", "prevhist", "nexthist")


def clamp(p, n):
    return min(max(0, p), n)


def eff_prefix(before):
    """the prefix an up/down step filters on when it starts in state `before`"""
    if not before["ehs"]:
        return None
    if before["search"] is not None:
        return before["search"]
    return before["text"][:before["cur"]]


class Viol:
    def __init__(self):
        self.v = []
        self.seen = set()

    def add(self, site, cond, msg):
        sig = f"{site} | {cond}"
        if sig not in self.seen:
            self.seen.add(sig)
            self.v.append({"signature": sig, "msg": msg[:1200]})


def wf(V, site, st, desc):
    if not (0 <= st["idx"] < len(st["work"])):
        V.add(site, "working_index out of range", f"{desc}: idx={st['idx']} len(work)={len(st['work'])}")
        return False
    if not (0 <= st["cur"] <= len(st["text"])):
        V.add(site, "cursor out of range", f"{desc}: cur={st['cur']} text={st['text']!r}")
    return True


class PrefixTracker:
    """What the user has typed as search prefix, tracked from the outside: the text before the
    cursor at the first up/down/page step after the last change of the text (None = no search
    running / prefix search off).  Deliberately ignores Buffer.history_search_text."""

    def __init__(self):
        self.typed = None

    def text_changed(self):
        self.typed = None

    def history_step(self, before):
        """a step that really goes to the history loops (not a cursor move inside the text)"""
        if not before["ehs"]:
            self.typed = None
        elif self.typed is None:
            self.typed = before["text"][:before["cur"]]
        return self.typed


def takes_history_branch(name, before, count=1, tracker=None):
    """auto_up / auto_down move inside a multi-line text when they can; a count of zero does
    nothing and a negative count goes the other way"""
    up, down = ("aup", "up", "c-p", "k"), ("adown", "down", "c-n", "j")
    if name in up + down:
        if count == 0:
            return False
        go_up = (name in up) == (count > 0)
        if go_up:
            return "\n" not in before["text"][:before["cur"]]
        return "\n" not in before["text"][before["cur"]:]
    if name in ("gotofix", "endhistfix"):
        tracker.text_changed() if tracker is not None else None
        return False
    return name in ("hb", "hf", "prevhist", "nexthist", "endhist")


def check_nav(V, site, name, before, after, desc, tracker, count=1):
    """an up/down/page/goto/cursor step: stored history, working copies untouched"""
    if after["storage"] != before["storage"] or after["hist"] != before["hist"]:
        V.add(site, "navigation changed the stored history",
              f"{desc}: {before['storage']!r}/{before['hist']!r} -> {after['storage']!r}/{after['hist']!r}")
    if after["work"] != before["work"]:
        V.add(site, "navigation changed a working copy", f"{desc}: {before['work']!r} -> {after['work']!r}")
    if takes_history_branch(name, before, count, tracker):
        typed = tracker.history_step(before)
        if name != "endhist" and after["idx"] != before["idx"]:
            if typed is not None and not after["text"].startswith(typed):
                V.add(site, "prefix search reached an entry without the prefix",
                      f"{desc}: typed prefix={typed!r} (Buffer.history_search_text={after['search']!r}) "
                      f"reached={after['text']!r}")
        if after["search"] != typed:
            V.add(site, "remembered search text is not the typed prefix",
                  f"{desc}: typed prefix={typed!r} Buffer.history_search_text={after['search']!r}")


def yank_rewrote(name, before, after):
    """a yank command that removed the previously yanked word and inserted one is an edit of the
    text (and starts a new prefix search) even when the word it puts back is the same"""
    if name not in ("yank", "yanknth", "yanklast"):
        return False
    return bool(before["yank"] and before["yank"][2]) and after["yank"] is not None and bool(before["hist"])


def check_edit(V, site, before, after, desc):
    if after["storage"] != before["storage"] or after["hist"] != before["hist"]:
        V.add(site, "edit changed the stored history", f"{desc}")
    if after["idx"] != before["idx"] or len(after["work"]) != len(before["work"]):
        V.add(site, "edit moved to another entry", f"{desc}: idx {before['idx']} -> {after['idx']}")
    else:
        for j, (x, y) in enumerate(zip(before["work"], after["work"])):
            if j != before["idx"] and x != y:
                V.add(site, "edit changed another working copy", f"{desc}: entry {j}: {x!r} -> {y!r}")


def count_matches(work, idxs, p):
    return sum(1 for j in idxs if p is None or work[j].startswith(p))


STALE_SIG = ("go_to_history / end-of-history", "stale search filter: back k / forward k does not return")


def check_round_trip(V, site, first, k, s0, s2, desc):
    """back k then forward k (or forward k then back k), k not exceeding the entries available
    in that direction: same entry and text again.  When the current entry is one the remembered
    filter rejects (only reachable through the unfiltered jumps go_to_history / end-of-history)
    a failure is reported under the known-finding signature."""
    if k < 1:
        return
    p = eff_prefix(s0)
    stale = p is not None and not s0["text"].startswith(p)
    idxs = range(0, s0["idx"]) if first == "back" else range(s0["idx"] + 1, len(s0["work"]))
    if k > count_matches(s0["work"], idxs, p):
        return
    if s2["idx"] != s0["idx"] or s2["text"] != s0["text"]:
        msg = (f"{desc}: k={k} first={first} from idx={s0['idx']} text={s0['text']!r} prefix={p!r} "
               f"work={s0['work']!r} -> idx={s2['idx']} text={s2['text']!r}")
        if stale:
            V.add(STALE_SIG[0], STALE_SIG[1], msg)
        else:
            V.add(site, "back k / forward k does not return", msg)


def vi_rest(text, pos):
    """where the cursor rests in vi navigation mode: never after the last character of a
    non-empty line (KeyProcessor._fix_vi_cursor_position runs after every handler)"""
    at_eol = pos >= len(text) or text[pos] == "\n"
    start = text.rfind("\n", 0, pos) + 1
    end = text.find("\n", pos)
    end = len(text) if end < 0 else end
    if at_eol and end - start > 0:
        return pos - 1
    return pos


def check_accept(V, site, spec, before, after, out, keep, desc, vi_nav=False):
    text = before["text"]
    pos = verdict(spec, text)
    if pos is not None:
        # the validator does not pass: nothing may happen except the cursor move of a fresh verdict
        if out != "rej":
            V.add(site, "accepted although the validator fails", f"{desc}: text={text!r} out={out}")
        if after["text"] != text or after["work"] != before["work"] or after["idx"] != before["idx"]:
            V.add(site, "reject changed the text", f"{desc}: {before['work']!r} -> {after['work']!r}")
        if after["storage"] != before["storage"] or after["hist"] != before["hist"]:
            V.add(site, "reject appended to the history", f"{desc}: {before['storage']!r} -> {after['storage']!r}")
        want = clamp(pos, len(text))
        if vi_nav:
            want = vi_rest(text, want)
        if before["vstate"] == "U" and after["cur"] != want:
            V.add(site, "fresh verdict: cursor not at the clamped error position",
                  f"{desc}: text={text!r} reported={pos} cursor={after['cur']} wanted={want}")
        return
    if out != "acc:" + enc_str(text):
        V.add(site, "validator passes but the text was not accepted/returned", f"{desc}: text={text!r} out={out}")
        return
    newest = before["storage"][-1] if before["storage"] else None
    want = before["storage"] + [text] if (text != "" and newest != text) else before["storage"]
    if after["storage"] != want:
        if text != "" and newest == text and not before["hloaded"]:
            V.add("Buffer.append_to_history", "history not loaded yet: duplicate of the newest entry appended",
                  f"{desc}: accepted {text!r}, stored history {before['storage']!r} -> {after['storage']!r}")
        else:
            V.add(site, "accept did not append exactly once",
                  f"{desc}: accepted {text!r}, stored history {before['storage']!r} -> {after['storage']!r}, wanted {want!r}")
    if keep is False and (after["work"] != [""] or after["idx"] != 0):
        V.add(site, "buffer not reset after accept", f"{desc}: work={after['work']!r}")


def check_clean(V, site, st, default, desc):
    if st["work"] != st["hist"] + [default] or st["idx"] != len(st["hist"]):
        V.add(site, "next prompt does not start from history + [default]",
              f"{desc}: work={st['work']!r} idx={st['idx']} hist={st['hist']!r} default={default!r}")


def buf_oracle(case, trace):
    V = Viol()
    spec = case["val"]
    clean_default = None      # text given to the last reset, while nothing else has happened since
    tracker = PrefixTracker()
    for i in range(1, len(trace)):
        op, before, after, out = trace[i]
        k = op[0]
        site = "Buffer." + {"hb": "history_backward", "hf": "history_forward", "goto": "go_to_history",
                            "aup": "auto_up", "adown": "auto_down", "endhist": "end-of-history",
                            "accept": "validate_and_handle", "ins": "insert_text", "delb": "delete_before_cursor",
                            "text": "text", "loadone": "load_history", "startload": "load_history",
                            "reset": "reset", "reseta": "reset(append_to_history=True)",
                            "append": "append_to_history", "vstart": "_async_validator (first step)",
                            "vrel": "_validate_async (validation finished)",
                            "avalidate": "_async_validator (loop turn)"}.get(k, k)
        desc = f"op {i - 1} {op}"
        if not wf(V, site, after, desc):
            break
        if after.get("orphans"):
            V.add(STALL_SIG[0], STALL_SIG[1],
                  f"{desc}: a worker thread is validating {after['orphans'][0]!r} but the validation coroutine "
                  f"has already ended (validation_state={after['vstate']}): its verdict is never delivered")
        if k in NAV_OPS:
            check_nav(V, site, k, before, after, desc, tracker,
                      count=op[1] if k in ("aup", "adown") else 1)
            if k == "validate" and verdict(spec, before["text"]) is not None and out == "b1":
                V.add(site, "validate() true although the validator fails", desc)
        elif k in EDIT_OPS:
            check_edit(V, site, before, after, desc)
            if after["text"] != before["text"] or yank_rewrote(k, before, after):
                tracker.text_changed()
        elif k == "startload":
            if after["storage"] != before["storage"] or after["work"] != before["work"] and not case.get("gated", True) is False:
                pass
            if after["storage"] != before["storage"]:
                V.add(site, "loading changed the stored history", desc)
            if after["hist"] != after["storage"]:
                V.add(site, "loaded strings differ from the stored history", desc)
            if after["text"] != before["text"]:
                V.add(site, "loading changed the current entry", desc)
        elif k == "loadone":
            n = len(after["work"]) - len(before["work"])
            if (after["storage"] != before["storage"] or after["hist"] != before["hist"] or n < 0
                    or after["work"][n:] != before["work"] or after["idx"] != before["idx"] + n
                    or after["text"] != before["text"] or after["cur"] != before["cur"]):
                V.add(site, "loader item disturbed the entries or the position",
                      f"{desc}: {before['work']!r}@{before['idx']} -> {after['work']!r}@{after['idx']}")
        elif k == "accept":
            check_accept(V, site, spec, before, after, out, bool(op[1]), desc)
            if out.startswith("acc:") and not op[1]:
                tracker.text_changed()
        elif k == "append":
            text = before["text"]
            newest = before["storage"][-1] if before["storage"] else None
            want = before["storage"] + [text] if (text != "" and newest != text) else before["storage"]
            if after["storage"] != want and not (text != "" and newest == text and not before["hloaded"]):
                V.add(site, "append_to_history did not append exactly once", desc)
            if after["work"] != before["work"]:
                V.add(site, "append_to_history changed a working copy", desc)
        elif k == "reset":
            tracker.text_changed()
            if after["storage"] != before["storage"] or after["hist"] != before["hist"]:
                V.add(site, "reset changed the stored history", desc)
        elif k == "reseta":
            tracker.text_changed()
            text = before["text"]
            newest = before["storage"][-1] if before["storage"] else None
            want = before["storage"] + [text] if (text != "" and newest != text) else before["storage"]
            if after["storage"] != want:
                if text != "" and newest == text and not before["hloaded"]:
                    V.add("Buffer.append_to_history", "history not loaded yet: duplicate of the newest entry appended",
                          f"{desc}: reset(append_to_history=True) with text {text!r}, stored history "
                          f"{before['storage']!r} -> {after['storage']!r}")
                else:
                    V.add(site, "reset(append_to_history=True) did not append exactly once",
                          f"{desc}: text {text!r}, stored history {before['storage']!r} -> {after['storage']!r}")
        # round trips
        if k in ("hb", "hf") and i + 1 < len(trace):
            op2 = trace[i + 1][0]
            if op2[0] == ("hf" if k == "hb" else "hb") and op2[1] == op[1]:
                check_round_trip(V, "Buffer.history_backward/forward", "back" if k == "hb" else "fwd",
                                 op[1], before, trace[i + 1][2], desc)
        # clean start of the next prompt
        if k in ("reset", "reseta"):
            clean_default = op[1]
        elif k == "accept" and out.startswith("acc:") and not op[1]:
            clean_default = ""
        elif k not in ("startload", "loadone", "avalidate", "ehs", "vwt", "vstart", "vrel"):
            clean_default = None
        if clean_default is not None and after["loading"] and not after["pending"] and k in ("startload", "loadone"):
            check_clean(V, "Buffer.reset + load_history", after, clean_default, desc)
    return V.v


def sess_oracle(case, events):
    V = Viol()
    spec = case["val"]
    last_storage = list(case["hist"])
    tracker = PrefixTracker()
    for n, e in enumerate(events):
        ev = e["ev"]
        desc = f"event {n} {ev} {e.get('key', '')}"
        after = e["after"]
        if not wf(V, "PromptSession", after, desc):
            break
        if after.get("orphans"):
            V.add(STALL_SIG[0], STALL_SIG[1],
                  f"{desc}: a worker thread is validating {after['orphans'][0]!r} but the validation coroutine "
                  f"of the prompt has already ended (validation_state={after['vstate']}): its verdict is never "
                  f"delivered")
        if ev == "start":
            if after["storage"] != last_storage:
                V.add("PromptSession.prompt", "stored history changed between prompts",
                      f"{desc}: {last_storage!r} -> {after['storage']!r}")
            check_clean(V, "PromptSession.prompt", after, e["default"], desc)
            tracker.text_changed()
        elif ev == "key":
            name = e["key"][0]
            before = e["before"]
            if name in KEY_NAV:
                kk = e["key"]
                check_nav(V, "key " + name, name, before, after, desc, tracker,
                          count=kk[1] if name in ("up", "down", "c-p", "k", "j") and len(kk) > 1 else 1)
            elif name in KEY_EDIT or name == "enter":
                # (Enter reaches this branch only in a multiline prompt, where it inserts a line break)
                check_edit(V, "key " + name, before, after, desc)
                if after["text"] != before["text"] or yank_rewrote(name, before, after):
                    tracker.text_changed()
                if name == "enter" and not after["text"].startswith(before["text"][:before["cur"]] + "\n"):
                    V.add("key enter", "multiline prompt: Enter did not insert a line break at the cursor",
                          f"{desc}: {before['text']!r}@{before['cur']} -> {after['text']!r}")
            # round trip on consecutive prevhist k / nexthist k
            if name in ("prevhist", "nexthist") and n + 1 < len(events) and events[n + 1]["ev"] == "key":
                k2 = events[n + 1]["key"]
                if k2[0] == ("nexthist" if name == "prevhist" else "prevhist") and k2[1] == e["key"][1]:
                    check_round_trip(V, "previous-history/next-history", "back" if name == "prevhist" else "fwd",
                                     e["key"][1], before, events[n + 1]["after"], desc)
        elif ev in ("accept", "reject"):
            before = e["before"]
            if e["site"].startswith("prompt("):
                # accept_default: `before` is the state before prompt(); the accepted text is the default
                b2 = dict(before, text=e["text"], vstate="U", work=None, idx=None)
                text = e["text"]
                pos = verdict(spec, text)
                if (pos is None) != (ev == "accept"):
                    V.add(e["site"], "accept_default verdict differs from the validator", desc)
                if ev == "accept":
                    if e["result"] != text:
                        V.add(e["site"], "returned value differs from the accepted text", desc)
                    newest = before["storage"][-1] if before["storage"] else None
                    want = before["storage"] + [text] if (text != "" and newest != text) else before["storage"]
                    if after["storage"] != want:
                        if text != "" and newest == text and not before["hloaded"]:
                            V.add("Buffer.append_to_history",
                                  "history not loaded yet: duplicate of the newest entry appended",
                                  f"{desc}: prompt(default={text!r}, accept_default=True) with stored history "
                                  f"{before['storage']!r} -> {after['storage']!r}")
                        else:
                            V.add(e["site"], "accept did not append exactly once",
                                  f"{desc}: {before['storage']!r} -> {after['storage']!r}, wanted {want!r}")
                else:
                    if after["storage"] != before["storage"]:
                        V.add(e["site"], "reject appended to the history", desc)
                    if after["text"] != text:
                        V.add(e["site"], "reject changed the text", desc)
                    if after["cur"] != clamp(pos, len(text)):
                        V.add(e["site"], "fresh verdict: cursor not at the clamped error position", desc)
                del b2
            else:
                out = ("acc:" + enc_str(e["result"])) if ev == "accept" else "rej"
                if ev == "accept" and e.get("accepting") is False:
                    V.add("key " + str(e["key"][0]), "a key that is not an accept key returned from the prompt",
                          f"{desc}: result {e['result']!r}")
                check_accept(V, e["site"], spec, before, after, out, None, desc, vi_nav=bool(e.get("vi_nav")))
        elif ev == "abort":
            if after["storage"] != e["before"]["storage"]:
                V.add("PromptSession.prompt", "abort changed the stored history", desc)
        last_storage = after["storage"]
    return V.v


def oracle(case):
    if case["kind"] == "words":
        return []
    r = run_real(case)
    if isinstance(r, StallResult):
        return [{"signature": f"{STALL_SIG[0]} | {STALL_SIG[1]}",
                 "msg": ("with a validator wrapped in ThreadedValidator and validate_while_typing the background "
                         "validation did not complete within %g s (confirmed after a first limit of %g s; on the "
                         "unchanged tree these cases settle within milliseconds): %s" % (LONG, SHORT, r.msg))[:1200]}]
    if isinstance(r, Skipped):
        return []
    if case["kind"] == "buf":
        return buf_oracle(case, r)
    return sess_oracle(case, r[1])


def sample_view(case):
    return case


def nontrivial(case):
    if case["kind"] == "words":
        return True
    if case["kind"] == "buf" and case.get("vasync") and any(op[0] == "vrel" for op in case["ops"]):
        return True         # a validation finishes while something else has happened
    if case["kind"] != "buf" and case.get("vasync") and any(k[0] == "valdone" for p in case["prompts"] for k in p["keys"]):
        return True
    if not case["hist"]:
        return False
    if case["kind"] == "buf":
        return any(op[0] in ("hb", "hf", "aup", "adown", "goto", "endhist", "gotofix", "endhistfix", "yank")
                   for op in case["ops"])
    return any(k[0] in ("up", "down", "c-p", "c-n", "prevhist", "nexthist", "beginhist", "endhist", "k", "j", "G",
                        "yanknth", "yanklast", "c-o")
               for p in case["prompts"] for k in p["keys"])


def distribution(cases):
    d = {"kind": {}, "hist_len": {}, "ops": {}}
    for c in cases:
        d["kind"][c["kind"]] = d["kind"].get(c["kind"], 0) + 1
        if c["kind"] == "words":
            d["ops"]["words"] = d["ops"].get("words", 0) + len(c["texts"])
            continue
        n = str(len(c["hist"]))
        d["hist_len"][n] = d["hist_len"].get(n, 0) + 1
        if c["kind"] == "buf":
            for op in c["ops"]:
                d["ops"][op[0]] = d["ops"].get(op[0], 0) + 1
        else:
            for p in c["prompts"]:
                d["ops"]["prompt"] = d["ops"].get("prompt", 0) + 1
                for k in p["keys"]:
                    d["ops"]["key:" + k[0]] = d["ops"].get("key:" + k[0], 0) + 1
    return d


if __name__ == "__main__":
    sys.exit(core.main(sys.modules[__name__]))
