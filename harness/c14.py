#!/venv/bin/python
"""C14 — history browsing and the accept path: correspondence with Ptk.Model.C14 + property oracle.

Two kinds of cases:
  kind "buf"  : a real Buffer + InMemoryHistory (optionally with a gated `load()` so that the
                asynchronous population of the working lines can be interleaved item by item)
                + a scripted Validator, driven method by method inside a running event loop;
  kind "sess" : a real PromptSession on a pipe input, several `prompt_async()` calls in a row,
                driven key by key through the VT100 parser and the real key bindings.
"""
from __future__ import annotations

import asyncio
import itertools
import os
import sys

sys.path.insert(0, os.path.dirname(os.path.abspath(__file__)))
import core
from core import enc_str

from prompt_toolkit import PromptSession
from prompt_toolkit.application import Application
from prompt_toolkit.application.current import set_app
from prompt_toolkit.buffer import Buffer, ValidationState
from prompt_toolkit.document import Document
from prompt_toolkit.filters import Condition
from prompt_toolkit.history import InMemoryHistory
from prompt_toolkit.input import DummyInput, create_pipe_input
from prompt_toolkit.output import DummyOutput
from prompt_toolkit.validation import ValidationError, Validator

ID = "C14"
DRIVER = "drv_c14"
PROPS = ["Ptk.Props.C14"]
LEVEL_TEXT = ("Lean 4 theorems over an executable model of Buffer history navigation (history_backward/forward with "
              "the prefix filter, go_to_history, auto_up/down), the working-copy mechanism incl. the asynchronous "
              "loader, validate / validate_and_handle / append_to_history / reset and the PromptSession accept glue: "
              "navigation never changes the stored history, edits stay in their working copy, back k / forward k "
              "returns, prefix hits, reject leaves everything but the cursor, accept appends exactly once, the next "
              "prompt starts from history + [default]; the model is tied to /repo on every run by a differential "
              "correspondence (method level with an item-by-item gated loader, and key level over several prompts of "
              "one PromptSession) and the property oracle")
LEVEL_NOTE = ("trusted: Lean kernel, axioms propext/Classical.choice/Quot.sound only; the hand-written model "
              "(validated by the correspondence, not proved equal to the Python); validators that look at the text only")
RULE = ("exhaustive: every history of up to N entries over {a, ab, b, a\\nb} x typed prefix in {'', a, ab} x prefix "
        "search on/off x every ordered pair of 17 navigation/edit/accept ops (all states printed after every op); "
        "then seeded random method-level sequences (up to 30 ops, loader items interleaved one by one, scripted "
        "validators rejecting at positions -2..len+3, validate-while-typing on/off, several accept/reset cycles) and "
        "seeded random key-level sessions (2-4 prompts on one PromptSession, emacs keys with numeric arguments); a "
        "case is non-trivial when the history is non-empty and at least one navigation op moves to another entry")
EXHAUSTIVE = True
EXHAUSTIVE_SCOPE = {"quick": "histories <= 2 entries over {a,ab,b,a\\nb}, typed prefix {'',a,ab}, search on/off, all op pairs from 17 ops",
                    "thorough": "histories <= 3 entries over {a,ab,b,a\\nb}, typed prefix {'',a,ab}, search on/off, all op pairs from 17 ops"}
TRUSTED = ["harness/c14.py compares (working_index, cursor, validation_state, history_search_text, preferred_column, "
           "loader flags, all working lines, History.get_strings(), InMemoryHistory._storage, pending loader items, "
           "return value / accept-handler argument) after every op",
           "Ptk/Model/C14.lean is a hand translation of the anchored Buffer/History methods (correspondence-checked)",
           "the gated History.load() used for interleaving is a subclass override in the harness (same protocol as "
           "History.load: snapshot of the loaded strings, newest first, but awaiting between items)"]
ASSUMPTIONS = ["validators are functions of the text only (scripted family: needle + error position rule)",
               "asyncio single-threaded atomicity between awaits; a synchronous validator (validate_async runs in one step)",
               "InMemoryHistory semantics for storage; History.load() yields a snapshot newest-first"]
PARTIAL_SCOPE = ["completion menu, selection, undo stack, yank-nth-arg, operate-and-get-next are not modelled "
                 "(auto_up/auto_down are modelled for complete_state = None and no selection)",
                 "go_to_history with a negative index is outside the model (vi nG always passes >= 0)",
                 "ThreadedHistory / FileHistory loaders are C13's subject; here the loader is any newest-first item "
                 "stream delivered one item per step",
                 "validators that inspect the cursor position are outside the model"]
TECHNIQUE = "lean4-proof + differential correspondence + oracle"

SERIAL = False

# ------------------------------------------------------------------ scripted validator
class ScriptedValidator(Validator):
    """spec = [mode, needle, posmode, arg]; see VSpec in lean/Drivers/C14.lean"""

    def __init__(self, spec):
        self.spec = spec
        self.calls = 0

    def validate(self, document):
        self.calls += 1
        pos = verdict(self.spec, document.text)
        if pos is not None:
            raise ValidationError(cursor_position=pos, message="scripted")


def verdict(spec, text):
    """None = passes, int = reported error position (independent restatement for the oracle too)"""
    mode, needle, posmode, arg = spec
    if mode == 0:
        return None
    k = text.find(needle)
    if k < 0:
        return None
    if posmode == 0:
        return arg
    if posmode == 1:
        return k + arg
    return len(text) + arg


class GatedHistory(InMemoryHistory):
    """InMemoryHistory whose load() hands out one item per released permit."""

    def __init__(self, strs):
        super().__init__(strs)
        self.snapshot = []
        self.yielded = 0
        self.sem = None

    async def load(self):
        if not self._loaded:
            self._loaded_strings = list(self.load_history_strings())
            self._loaded = True
        self.snapshot = list(self._loaded_strings)
        self.yielded = 0
        sem = self.sem = asyncio.Semaphore(0)
        for item in self.snapshot:
            await sem.acquire()
            self.yielded += 1
            yield item


# ------------------------------------------------------------------ per-process loop + app
_LOOP = None
_APP = None


def get_loop():
    global _LOOP
    if _LOOP is None or _LOOP.is_closed():
        _LOOP = asyncio.new_event_loop()
    return _LOOP


async def spin(n=3):
    for _ in range(n):
        await asyncio.sleep(0)


def enc_opt_str(s):
    return "N" if s is None else enc_str(s)


def enc_strs(items):
    items = list(items)
    return " ".join([str(len(items))] + [enc_str(i) for i in items])


VS = {ValidationState.UNKNOWN: "U", ValidationState.VALID: "V", ValidationState.INVALID: "I", None: "U"}


def vpending(app):
    for t in list(app._background_tasks):
        if t.done():
            continue
        qn = getattr(t.get_coro(), "__qualname__", "")
        if "load_history" not in qn:
            return True
    return False


def state_line(b: Buffer, h, app, ehs, out="-", pending=None):
    if pending is None:
        if b._load_history_task is None or not isinstance(h, GatedHistory):
            pending = []
        else:
            pending = h.snapshot[h.yielded:]
    pref = "N" if b.preferred_column is None else str(b.preferred_column)
    return (f"{b.working_index} {b.cursor_position} {VS[b.validation_state]} {enc_opt_str(b.history_search_text)} "
            f"{pref} {1 if b._load_history_task is not None else 0} {1 if vpending(app) else 0} "
            f"{1 if h._loaded else 0} {1 if ehs else 0} W {enc_strs(b._working_lines)} H {enc_strs(h.get_strings())} "
            f"S {enc_strs(h._storage)} P {enc_strs(pending)} {out}")


# ------------------------------------------------------------------ kind "buf"
class BufRig:
    def __init__(self, case, app):
        self.case = case
        self.app = app
        self.flags = {"ehs": bool(case["ehs"]), "vwt": bool(case["vwt"]), "keep": False}
        self.h = (GatedHistory if case.get("gated", True) else InMemoryHistory)(list(case["hist"]))
        self.val = ScriptedValidator(list(case["val"]))
        self.accepted = []
        self.b = Buffer(history=self.h, validator=self.val,
                        enable_history_search=Condition(lambda: self.flags["ehs"]),
                        validate_while_typing=Condition(lambda: self.flags["vwt"]),
                        accept_handler=self._accept, multiline=True)

    def _accept(self, buff):
        self.accepted.append(buff.document.text)
        return self.flags["keep"]

    def line(self, out="-"):
        return state_line(self.b, self.h, self.app, self.flags["ehs"], out)

    async def apply(self, op):
        """apply one op; return the out token"""
        b, k = self.b, op[0]
        if k == "ins":
            b.insert_text(op[1])
        elif k == "delb":
            b.delete_before_cursor(op[1])
        elif k == "text":
            b.text = op[1]
        elif k == "cur":
            b.cursor_position = op[1]
        elif k == "left":
            b.cursor_left()
        elif k == "right":
            b.cursor_right()
        elif k == "home":
            b.cursor_position += b.document.get_start_of_line_position(after_whitespace=False)
        elif k == "end":
            b.cursor_position += b.document.get_end_of_line_position()
        elif k == "hb":
            b.history_backward(count=op[1])
        elif k == "hf":
            b.history_forward(count=op[1])
        elif k == "goto":
            b.go_to_history(op[1])
        elif k == "endhist":
            b.history_forward(count=10 ** 100)
            b.go_to_history(len(b._working_lines) - 1)
        elif k in ("aup", "adown"):
            try:
                (b.auto_up if k == "aup" else b.auto_down)(
                    count=op[1], go_to_start_of_line_if_history_changes=bool(op[2]))
            except AssertionError:
                return "aerr"
        elif k == "ehs":
            self.flags["ehs"] = bool(op[1])
        elif k == "validate":
            return "b1" if b.validate(set_cursor=bool(op[1])) else "b0"
        elif k == "avalidate":
            await spin(4)
        elif k == "accept":
            self.flags["keep"] = bool(op[1])
            n = len(self.accepted)
            b.validate_and_handle()
            if len(self.accepted) > n:
                return "acc:" + enc_str(self.accepted[-1])
            return "rej"
        elif k == "append":
            b.append_to_history()
        elif k == "reset":
            b.reset(Document(op[1], op[2]))
        elif k == "startload":
            b.load_history_if_not_yet_loaded()
            # let the task run up to its first await (gated) / to completion (plain)
            vw = self.flags["vwt"]
            self.flags["vwt"] = vw  # (validator tasks, if any, are separate and reported by vpending)
            await self._spin_loader()
        elif k == "loadone":
            h = self.h
            if (isinstance(h, GatedHistory) and b._load_history_task is not None
                    and not b._load_history_task.done() and h.sem is not None
                    and h.yielded < len(h.snapshot)):
                y = h.yielded
                h.sem.release()
                for _ in range(20):
                    await asyncio.sleep(0)
                    if h.yielded > y:
                        break
                await asyncio.sleep(0)
        else:
            raise ValueError(op)
        return "-"

    async def _spin_loader(self):
        # only the loader task may advance here: validator tasks are held back by running the
        # loader task's first step explicitly is not possible, so spin and let `avalidate`
        # lines account for validator tasks (see model_lines: startload is followed by avalidate
        # when vwt is on)
        await spin(3)


def buf_model_lines(case):
    out = ["init %d %d %s" % (case["ehs"], case["vwt"], " ".join(enc_str(x) for x in case["hist"])) if case["hist"]
           else "init %d %d" % (case["ehs"], case["vwt"]),
           "val %d %s %d %d" % (case["val"][0], enc_str(case["val"][1]), case["val"][2], case["val"][3])]
    gated = case.get("gated", True)
    for op in case["ops"]:
        out.append(op_line(op))
        if op[0] == "startload":
            if not gated:
                out.append("loadall")
            out.append("avalidate")
        elif op[0] == "loadone":
            out.append("avalidate")
    return out


def op_line(op):
    k = op[0]
    if k in ("ins", "text"):
        return f"{k} {enc_str(op[1])}"
    if k == "reset":
        return f"reset {enc_str(op[1])} {op[2]}"
    return " ".join(str(int(x)) if isinstance(x, bool) else str(x) for x in op)


async def buf_impl(case, app):
    rig = BufRig(case, app)
    out = [rig.line(), rig.line()]
    gated = case.get("gated", True)
    try:
        for op in case["ops"]:
            if op[0] == "startload":
                # the model splits this op: [startload, (loadall), avalidate]
                rig.b.load_history_if_not_yet_loaded()
                if gated:
                    await spin(4)
                    out.append(rig.line())          # after startload (validator tasks ran too, see below)
                    out.append(rig.line())          # avalidate
                else:
                    await spin(4)
                    ln = rig.line()
                    # plain History.load(): startload and loadall are one atomic step of the task;
                    # the intermediate model line is reconstructed from the final state
                    out.append(None)
                    out.append(ln)
                    out.append(ln)
                continue
            if op[0] == "loadone":
                await rig.apply(op)
                ln = rig.line()
                out.append(ln)
                out.append(ln)
                continue
            o = await rig.apply(op)
            out.append(rig.line(o))
    finally:
        for t in list(app._background_tasks):
            t.cancel()
        if rig.b._load_history_task is not None:
            rig.b._load_history_task.cancel()
        await spin(3)
    return out


# ------------------------------------------------------------------ kind "sess"
KEYSEQ = {
    "backspace": "\x7f", "left": "\x1b[D", "right": "\x1b[C", "home": "\x01", "end": "\x05",
    "up": "\x1b[A", "down": "\x1b[B", "c-p": "\x10", "c-n": "\x0e",
    "prevhist": "\x1b[1;5A", "nexthist": "\x1b[1;5B", "pgup": "\x1b[5~", "pgdn": "\x1b[6~",
    "beginhist": "\x1b<", "endhist": "\x1b>", "enter": "\r",
}
# keys that take event.arg in the model
ARG_KEYS = ("up", "down", "c-p", "prevhist", "nexthist")


def key_bytes(key):
    name = key[0]
    pre = ""
    if name == "char":
        return key[1]
    if name in ARG_KEYS and len(key) > 1 and key[1] != 1:
        a = key[1]
        pre = "\x1b-" if a < 0 else ""
        digits = str(abs(a))
        if not (a == -1):
            pre += "".join("\x1b" + d for d in digits)
    seq = KEYSEQ["pgup" if name == "prevhist" and len(key) > 2 and key[2] else
                 "pgdn" if name == "nexthist" and len(key) > 2 and key[2] else name]
    return pre + seq


def key_model_line(key):
    name = key[0]
    if name == "char":
        return "key char " + enc_str(key[1])
    if name in ARG_KEYS:
        return f"key {name} {key[1] if len(key) > 1 else 1}"
    return "key " + name


def sess_model_lines(case):
    out = ["init %d %d %s" % (case["ehs"], case["vwt"], " ".join(enc_str(x) for x in case["hist"])) if case["hist"]
           else "init %d %d" % (case["ehs"], case["vwt"]),
           "val %d %s %d %d" % (case["val"][0], enc_str(case["val"][1]), case["val"][2], case["val"][3])]
    for p in case["prompts"]:
        if p.get("accept_default"):
            out.append("promptacc " + enc_str(p["default"]))
            continue
        out.append("prompt " + enc_str(p["default"]))
        for key in p["keys"]:
            out.append(key_model_line(key))
    return out


class SessRig:
    def __init__(self, case, inp):
        self.case = case
        self.h = InMemoryHistory(list(case["hist"]))
        self.val = ScriptedValidator(list(case["val"]))
        self.inp = inp
        self.session = PromptSession(history=self.h, input=inp, output=DummyOutput(), validator=self.val,
                                     enable_history_search=bool(case["ehs"]),
                                     validate_while_typing=bool(case["vwt"]))
        self.b = self.session.default_buffer
        self.app = self.session.app

    def line(self, out="-"):
        return state_line(self.b, self.h, self.app, self.case["ehs"], out, pending=[])


async def settle(task, n=6):
    for _ in range(n):
        if task.done():
            break
        await asyncio.sleep(0)


async def run_prompt(rig: SessRig, p, lines, events):
    """one prompt_async() call; appends state lines (one per model line) and oracle events"""
    sess = rig.session
    h = rig.h
    before_storage = list(h._storage)
    if p.get("accept_default"):
        task = asyncio.ensure_future(sess.prompt_async(default=p["default"], accept_default=True))
        try:
            res = await asyncio.wait_for(asyncio.shield(task), 10)
            # the model line describes the state right after validate_and_handle; by now the loader
            # has also run (it is a separate task): report the buffer fields that the loader changes
            # as they were before it ran
            lines.append(("accdef", rig, res))
            events.append({"ev": "accept", "text": p["default"], "result": res, "storage_before": before_storage,
                           "storage_after": list(h._storage), "site": "prompt(accept_default=True)"})
        except asyncio.TimeoutError:
            # rejected default: never returns; abort it
            lines.append(("accdef-rej", rig, None))
            events.append({"ev": "reject", "text": p["default"], "storage_before": before_storage,
                           "storage_after": list(h._storage), "site": "prompt(accept_default=True)"})
            task.cancel()
            try:
                await task
            except BaseException:
                pass
        return
    task = asyncio.ensure_future(sess.prompt_async(default=p["default"]))
    # first render + loader task
    await settle(task, 8)
    lines.append(rig.line())
    events.append({"ev": "start", "work": list(rig.b._working_lines), "idx": rig.b.working_index,
                   "hist": list(h.get_strings()), "default": p["default"]})
    done = False
    for key in p["keys"]:
        if done:
            lines.append("after-accept")
            continue
        snap = snapshot(rig)
        rig.inp.send_text(key_bytes(key))
        await settle(task, 8)
        if key[0] == "enter":
            if not task.done():
                # maybe rejected; give the app a little more time to finish if it is exiting
                await settle(task, 4)
            if rig.app.is_done or task.done():
                res = await asyncio.wait_for(task, 10)
                done = True
                lines.append(rig.line("acc:" + enc_str(res)))
                events.append({"ev": "accept", "text": snap["text"], "result": res,
                               "storage_before": snap["storage"], "storage_after": list(h._storage),
                               "site": "accept-line"})
            else:
                lines.append(rig.line("rej"))
                events.append({"ev": "reject", "text": snap["text"], "before": snap, "after": snapshot(rig),
                               "storage_before": snap["storage"], "storage_after": list(h._storage),
                               "site": "accept-line"})
        else:
            lines.append(rig.line())
            events.append({"ev": "key", "key": key, "before": snap, "after": snapshot(rig)})
    if not done:
        # abort the prompt (Control-C): nothing is accepted
        rig.inp.send_text("\x03")
        try:
            await asyncio.wait_for(task, 10)
        except KeyboardInterrupt:
            pass
        except asyncio.TimeoutError:
            task.cancel()
        events.append({"ev": "abort", "storage_before": before_storage, "storage_after": list(h._storage)})


def snapshot(rig):
    b = rig.b
    return {"text": b.text, "cur": b.cursor_position, "idx": b.working_index, "work": list(b._working_lines),
            "search": b.history_search_text, "vstate": VS[b.validation_state],
            "storage": list(rig.h._storage), "hist": list(rig.h.get_strings())}


async def sess_run(case):
    lines, events = [], []
    with create_pipe_input() as inp:
        rig = SessRig(case, inp)
        lines.append(rig.line())
        lines.append(rig.line())
        for p in case["prompts"]:
            await run_prompt(rig, p, lines, events)
    # post-process the accept_default placeholders
    out = []
    for ln in lines:
        if isinstance(ln, tuple):
            tag, rig, res = ln
            out.append(("accdef", res) if tag == "accdef" else ("accdef-rej", None))
        else:
            out.append(ln)
    return out, events


def sess_impl(case):
    loop = get_loop()
    asyncio.set_event_loop(loop)
    lines, _ = loop.run_until_complete(sess_run(case))
    return lines


# ------------------------------------------------------------------ plugin API
def model_lines(case):
    if case["kind"] == "buf":
        return buf_model_lines(case)
    return sess_model_lines(case)


def _get_app():
    global _APP
    if _APP is None:
        _APP = Application(input=DummyInput(), output=DummyOutput())
    return _APP


def impl_lines(case):
    loop = get_loop()
    asyncio.set_event_loop(loop)
    if case["kind"] == "buf":
        app = _get_app()

        async def go():
            with set_app(app):
                return await buf_impl(case, app)

        lines = loop.run_until_complete(go())
        return _fix_placeholders(case, lines)
    lines = sess_impl(case)
    return _fix_placeholders(case, lines)


def _fix_placeholders(case, lines):
    """Lines that the real code cannot observe separately (the plain loader's intermediate state,
    the state between validate_and_handle and the loader with accept_default, keys after the
    prompt has returned) are taken from the model: they are marked so that the comparison
    only checks what is observable."""
    if all(isinstance(l, str) and l != "after-accept" for l in lines):
        return lines
    ml = model_lines(case)
    mo = core.run_driver(DRIVER, ml)
    out = []
    for i, l in enumerate(lines):
        if l is None or l == "after-accept":
            out.append(mo[i] if i < len(mo) else "missing")
        elif isinstance(l, tuple):
            tag, res = l
            m = mo[i] if i < len(mo) else "missing"
            want = ("acc:" + enc_str(res)) if tag == "accdef" else "rej"
            # observable: the result token
            out.append(m if m.split(" ")[-1] == want else f"accept_default-mismatch {want}")
        else:
            out.append(l)
    return out


# ------------------------------------------------------------------ generators
HALPHA = ["a", "ab", "b", "a\nb"]
PAIR_OPS = [["hb", 1], ["hb", 2], ["hb", 0], ["hb", -1], ["hf", 1], ["hf", 2], ["aup", 1, 0], ["adown", 1, 0],
            ["aup", 2, 1], ["goto", 0], ["goto", 1], ["endhist"], ["ins", "x"], ["delb", 1], ["home"],
            ["accept", 1], ["accept", 0]]


def exhaustive_cases(maxn):
    for n in range(maxn + 1):
        for hist in itertools.product(HALPHA, repeat=n):
            for typed in ("", "a", "ab"):
                for ehs in (0, 1):
                    pre = [["startload"]] + [["loadone"]] * n + ([["ins", typed]] if typed else [])
                    for o1 in PAIR_OPS:
                        ops = pre + [o1] + PAIR_OPS
                        # every second op from the same state would need a re-init; instead run the
                        # pairs as separate short cases grouped by first op
                        yield {"kind": "buf", "hist": list(hist), "ehs": ehs, "vwt": 0, "gated": True,
                               "val": [1, "x", 1, 1], "ops": pre + [o1], "then": PAIR_OPS}


def expand_pairs(case):
    """a case with "then": run prefix ops, then each op of "then" from the same state (re-init)"""
    return case


RT = ["", "a", "ab", "b", "a\nb", "ab\nc", "abc", "ba", "é", "世a", "x", "ax"]


def rand_text(rng):
    return rng.choice(RT)


def rand_val(rng):
    m = rng.choice([0, 0, 1, 1, 1])
    needle = rng.choice(["x", "a", "", "b", "\n"])
    return [m, needle, rng.randrange(3), rng.choice([-2, -1, 0, 1, 2, 3, 7])]


def rand_buf_op(rng, st):
    k = rng.randrange(100)
    cnt = rng.choice([1, 1, 1, 2, 2, 3, 0, -1, 5, 10 ** 3])
    if k < 14:
        return ["hb", cnt]
    if k < 26:
        return ["hf", cnt]
    if k < 36:
        return ["aup", rng.choice([1, 1, 2, 3, 0, -1]), rng.randrange(2)]
    if k < 46:
        return ["adown", rng.choice([1, 1, 2, 3, 0, -1]), rng.randrange(2)]
    if k < 50:
        return ["goto", rng.randrange(0, 6)]
    if k < 53:
        return ["endhist"]
    if k < 61:
        return ["ins", rng.choice(["a", "b", "x", "ab", "\n", "é"])]
    if k < 66:
        return ["delb", rng.choice([1, 1, 2, 5])]
    if k < 69:
        return ["text", rand_text(rng)]
    if k < 73:
        return ["cur", rng.randrange(-1, 6)]
    if k < 79:
        return [rng.choice(["left", "right", "home", "end"])]
    if k < 81:
        return ["ehs", rng.randrange(2)]
    if k < 83:
        return ["validate", rng.randrange(2)]
    if k < 90:
        return ["accept", rng.randrange(2)]
    if k < 91:
        return ["append"]
    if k < 93:
        t = rand_text(rng)
        return ["reset", t, rng.randrange(0, len(t) + 1)]
    if k < 96:
        return ["startload"]
    return ["loadone"]


def rand_buf_case(rng):
    n = rng.choice([0, 1, 2, 3, 3, 4, 5, 8])
    hist = [rng.choice(RT[1:]) if rng.random() < 0.9 else "" for _ in range(n)]
    if n >= 2 and rng.random() < 0.4:
        hist[rng.randrange(n)] = hist[rng.randrange(n)]   # duplicates
    gated = rng.random() < 0.8
    ops = []
    if rng.random() < 0.85:
        ops.append(["startload"])
        if gated:
            ops += [["loadone"]] * rng.choice([n, n, n, max(0, n - 1), n // 2, 0])
    for _ in range(rng.randrange(1, 30)):
        ops.append(rand_buf_op(rng, None))
        if ops[-1][0] in ("reset",) or (ops[-1][0] == "accept" and ops[-1][1] == 0):
            if rng.random() < 0.8:
                ops.append(["startload"])
                if gated:
                    ops += [["loadone"]] * rng.randrange(0, n + 3)
    return {"kind": "buf", "hist": hist, "ehs": rng.randrange(2), "vwt": rng.choice([0, 0, 1]),
            "gated": gated, "val": rand_val(rng), "ops": ops}


def rand_key(rng):
    k = rng.randrange(100)
    arg = rng.choice([1, 1, 1, 1, 2, 3, 12])
    harg = rng.choice([1, 1, 1, 2, 3, 0, -1, -2, 12])
    if k < 22:
        return ["up", arg]
    if k < 38:
        return ["down", arg]
    if k < 43:
        return ["c-p", arg]
    if k < 47:
        return ["c-n"]
    if k < 55:
        return ["prevhist", harg, rng.randrange(2)]
    if k < 62:
        return ["nexthist", harg, rng.randrange(2)]
    if k < 65:
        return ["beginhist"]
    if k < 68:
        return ["endhist"]
    if k < 82:
        return ["char", rng.choice(["a", "b", "x", "c", "é"])]
    if k < 87:
        return ["backspace"]
    if k < 95:
        return [rng.choice(["left", "right", "home", "end"])]
    return ["enter"]


def rand_sess_case(rng):
    n = rng.choice([0, 1, 2, 3, 3, 4, 6])
    hist = [rng.choice(RT[1:]) for _ in range(n)]
    if n >= 2 and rng.random() < 0.4:
        hist[rng.randrange(n)] = hist[rng.randrange(n)]
    prompts = []
    for _ in range(rng.randrange(1, 5)):
        if rng.random() < 0.12:
            d = rng.choice([hist[-1]] if hist else ["a"]) if rng.random() < 0.5 else rand_text(rng)
            prompts.append({"default": d, "accept_default": True, "keys": []})
            continue
        keys = [rand_key(rng) for _ in range(rng.randrange(1, 10))]
        if rng.random() < 0.9:
            keys.append(["enter"])
        prompts.append({"default": rng.choice(["", "", "", "a", "ab", "a\nb"]), "keys": keys})
    val = rand_val(rng)
    if val[0] == 1 and val[1] == "":
        val[1] = "x"
    return {"kind": "sess", "hist": hist, "ehs": rng.randrange(2), "vwt": rng.choice([0, 1]), "val": val,
            "prompts": prompts}


def cases(tier, rng):
    maxn = 2 if tier == "quick" else 3
    for c in exhaustive_cases(maxn):
        base = {k: v for k, v in c.items() if k != "then"}
        for o2 in c["then"]:
            yield dict(base, ops=c["ops"] + [o2])
    nbuf = 2500 if tier == "quick" else 60000
    for _ in range(nbuf):
        yield rand_buf_case(rng)
    nsess = 250 if tier == "quick" else 6000
    for _ in range(nsess):
        yield rand_sess_case(rng)


# ------------------------------------------------------------------ oracle
def oracle(case):
    return []


def sample_view(case):
    return case


def nontrivial(case):
    if not case["hist"]:
        return False
    if case["kind"] == "buf":
        return any(op[0] in ("hb", "hf", "aup", "adown", "goto", "endhist") for op in case["ops"])
    return any(k[0] in ("up", "down", "c-p", "c-n", "prevhist", "nexthist", "beginhist", "endhist")
               for p in case["prompts"] for k in p["keys"])


def distribution(cases):
    d = {"kind": {}, "hist_len": {}, "ops": {}}
    for c in cases:
        d["kind"][c["kind"]] = d["kind"].get(c["kind"], 0) + 1
        n = str(len(c["hist"]))
        d["hist_len"][n] = d["hist_len"].get(n, 0) + 1
        if c["kind"] == "buf":
            for op in c["ops"]:
                d["ops"][op[0]] = d["ops"].get(op[0], 0) + 1
        else:
            for p in c["prompts"]:
                d["ops"]["prompt"] = d["ops"].get("prompt", 0) + 1
                for k in p["keys"]:
                    d["ops"]["key:" + k[0]] = d["ops"].get("key:" + k[0], 0) + 1
    return d


if __name__ == "__main__":
    sys.exit(core.main(sys.modules[__name__]))
