#!/venv/bin/python
"""C14 — history browsing and the accept path: correspondence with Ptk.Model.C14 + property oracle.

Two kinds of cases:
  kind "buf"  : a real Buffer + InMemoryHistory (optionally with a gated `load()` so that the
                asynchronous population of the working lines can be interleaved item by item)
                + a scripted Validator, driven method by method inside a running event loop;
  kind "sess" : a real PromptSession on a pipe input, several `prompt_async()` calls in a row,
                driven key by key through the VT100 parser and the real key bindings.
"""
from __future__ import annotations

import asyncio
import itertools
import json
import os
import sys

sys.path.insert(0, os.path.dirname(os.path.abspath(__file__)))
import core
from core import enc_str

from prompt_toolkit import PromptSession
from prompt_toolkit.application import Application
from prompt_toolkit.application.current import set_app
from prompt_toolkit.buffer import Buffer, ValidationState
from prompt_toolkit.document import Document
from prompt_toolkit.enums import EditingMode
from prompt_toolkit.filters import Condition
from prompt_toolkit.history import InMemoryHistory
from prompt_toolkit.input import DummyInput, create_pipe_input
from prompt_toolkit.output import DummyOutput
from prompt_toolkit.validation import ValidationError, Validator

ID = "C14"
DRIVER = "drv_c14"
PROPS = ["Ptk.Props.C14", "Ptk.Props.C14Scan"]
LEVEL_TEXT = ("Lean 4 theorems over an executable model of Buffer history navigation (history_backward/forward with "
              "the prefix filter, go_to_history, auto_up/down), the working-copy mechanism incl. the asynchronous "
              "loader, validate / validate_and_handle / append_to_history / reset and the PromptSession accept glue: "
              "navigation never changes the stored history, edits stay in their working copy, back k / forward k "
              "returns, prefix hits, reject leaves everything but the cursor, accept appends exactly once, the next "
              "prompt starts from history + [default]; the model is tied to /repo on every run by a differential "
              "correspondence (method level with an item-by-item gated loader, and key level over several prompts of "
              "one PromptSession in emacs and vi mode) and the property oracle; two known findings are excluded by "
              "explicit hypotheses (history not loaded yet at accept; stale filter after go_to_history)")
LEVEL_NOTE = ("trusted: Lean kernel, axioms propext/Classical.choice/Quot.sound only; the hand-written model "
              "(validated by the correspondence, not proved equal to the Python); validators that look at the text only")
RULE = ("exhaustive: every history of up to N entries over {a, ab, b, a\\nb} x typed prefix in {'', a, ab} x prefix "
        "search on/off x every ordered pair of 17 navigation/edit/accept ops (all state printed after every op); "
        "then seeded random method-level sequences (up to 30 ops, loader items interleaved one by one, scripted "
        "validators rejecting at positions -2..len+7, validate-while-typing on/off, several accept/reset cycles), "
        "seeded random key-level sessions in emacs mode (1-4 prompts on one PromptSession, numeric arguments incl. 0 "
        "and negative, accept_default) and in vi mode (Esc/i/a, k/j with counts, nG, Enter in both modes); a "
        "case is non-trivial when the history is non-empty and it contains a history navigation op")
EXHAUSTIVE = True
EXHAUSTIVE_SCOPE = {"quick": "histories <= 2 entries over {a,ab,b,a\\nb}, typed prefix {'',a,ab}, search on/off, all op pairs from 17 ops",
                    "thorough": "histories <= 3 entries over {a,ab,b,a\\nb}, typed prefix {'',a,ab}, search on/off, all op pairs from 17 ops"}
TRUSTED = ["harness/c14.py compares (working_index, cursor, validation_state, history_search_text, preferred_column, "
           "loader flags, all working lines, History.get_strings(), InMemoryHistory._storage, pending loader items, "
           "return value / accept-handler argument) after every op",
           "Ptk/Model/C14.lean is a hand translation of the anchored Buffer/History methods (correspondence-checked)",
           "the gated History.load() used for interleaving is a subclass override in the harness (same protocol as "
           "History.load: snapshot of the loaded strings, newest first, but awaiting between items)"]
ASSUMPTIONS = ["validators are functions of the text only (scripted family: needle + error position rule)",
               "asyncio single-threaded atomicity between awaits; a synchronous validator (validate_async runs in one step)",
               "InMemoryHistory semantics for storage; History.load() yields a snapshot newest-first"]
PARTIAL_SCOPE = ["accept_appends_once compares with the newest *stored* entry only once the history is loaded "
                 "(known finding: duplicate appended when accepting before the first load)",
                 "back_forth needs the current entry to pass the remembered filter (known finding: go_to_history / "
                 "end-of-history can leave the buffer on an entry the filter rejects)",
                 "completion menu, selection, undo stack, yank-nth-arg, operate-and-get-next are not modelled "
                 "(auto_up/auto_down are modelled for complete_state = None and no selection)",
                 "go_to_history with a negative index is outside the model (vi nG always passes >= 0)",
                 "ThreadedHistory / FileHistory loaders are C13's subject; here the loader is any newest-first item "
                 "stream delivered one item per step",
                 "validators that inspect the cursor position are outside the model"]
TECHNIQUE = "lean4-proof + differential correspondence + oracle"


# ------------------------------------------------------------------ scripted validator
def verdict(spec, text):
    """None = passes, int = reported error position (also used by the oracle)"""
    mode, needle, posmode, arg = spec
    if mode == 0:
        return None
    k = text.find(needle)
    if k < 0:
        return None
    if posmode == 0:
        return arg
    if posmode == 1:
        return k + arg
    return len(text) + arg


class ScriptedValidator(Validator):
    """spec = [mode, needle, posmode, arg]; see VSpec in lean/Drivers/C14.lean"""

    def __init__(self, spec):
        self.spec = spec

    def validate(self, document):
        pos = verdict(self.spec, document.text)
        if pos is not None:
            raise ValidationError(cursor_position=pos, message="scripted")


class Abort(Exception):
    """raised out of prompt_async() when the harness presses Control-C"""


class GatedHistory(InMemoryHistory):
    """InMemoryHistory whose load() hands out one item per released permit."""

    def __init__(self, strs):
        super().__init__(strs)
        self.snapshot = []
        self.yielded = 0
        self.sem = None

    async def load(self):
        if not self._loaded:
            self._loaded_strings = list(self.load_history_strings())
            self._loaded = True
        self.snapshot = list(self._loaded_strings)
        self.yielded = 0
        sem = self.sem = asyncio.Semaphore(0)
        for item in self.snapshot:
            await sem.acquire()
            self.yielded += 1
            yield item


# ------------------------------------------------------------------ per-process loop + app
_LOOP = None
_APP = None


class LoopError(Exception):
    """an exception reached the event loop (e.g. raised by a key handler of the real code)"""


_ERRORS = []


def _loop_exc_handler(loop, context):
    _ERRORS.append((type(context.get("exception")).__name__ + ": " + str(context.get("exception") or context.get("message")))[:200])


def check_errors():
    if _ERRORS:
        raise LoopError(_ERRORS[0])


def get_loop():
    global _LOOP
    if _LOOP is None or _LOOP.is_closed():
        _LOOP = asyncio.new_event_loop()
        _LOOP.set_exception_handler(_loop_exc_handler)
    return _LOOP


def _get_app():
    global _APP
    if _APP is None:
        _APP = Application(input=DummyInput(), output=DummyOutput())
    return _APP


async def spin(n=3):
    for _ in range(n):
        await asyncio.sleep(0)


def enc_opt_str(s):
    return "N" if s is None else enc_str(s)


def enc_strs(items):
    items = list(items)
    return " ".join([str(len(items))] + [enc_str(i) for i in items])


VS = {ValidationState.UNKNOWN: "U", ValidationState.VALID: "V", ValidationState.INVALID: "I", None: "U"}


def vpending(app):
    for t in list(app._background_tasks):
        if t.done():
            continue
        qn = getattr(t.get_coro(), "__qualname__", "")
        if "async_validator" in qn:    # Buffer._create_auto_validate_coroutine.<locals>.async_validator
            return True
    return False


def snap(b, h, app, ehs, gated):
    if b._load_history_task is None or not gated:
        pending = []
    else:
        pending = h.snapshot[h.yielded:]
    return {"idx": b.working_index, "cur": b.cursor_position, "vstate": VS[b.validation_state],
            "search": b.history_search_text, "pref": b.preferred_column,
            "loading": b._load_history_task is not None, "vpending": vpending(app), "hloaded": h._loaded,
            "ehs": bool(ehs), "work": list(b._working_lines), "hist": list(h.get_strings()),
            "storage": list(h._storage), "pending": list(pending),
            "text": b._working_lines[b.working_index] if -len(b._working_lines) <= b.working_index < len(b._working_lines) else None}


def snap_line(s, out="-"):
    pref = "N" if s["pref"] is None else str(s["pref"])
    return (f"{s['idx']} {s['cur']} {s['vstate']} {enc_opt_str(s['search'])} {pref} {int(s['loading'])} "
            f"{int(s['vpending'])} {int(s['hloaded'])} {int(s['ehs'])} W {enc_strs(s['work'])} H {enc_strs(s['hist'])} "
            f"S {enc_strs(s['storage'])} P {enc_strs(s['pending'])} {out}")


# ------------------------------------------------------------------ kind "buf"
class BufRig:
    def __init__(self, case, app):
        self.case = case
        self.app = app
        self.gated = bool(case.get("gated", True))
        self.flags = {"ehs": bool(case["ehs"]), "vwt": bool(case["vwt"]), "keep": False}
        self.h = (GatedHistory if self.gated else InMemoryHistory)(list(case["hist"]))
        self.val = ScriptedValidator(list(case["val"]))
        self.accepted = []
        self.b = Buffer(history=self.h, validator=self.val,
                        enable_history_search=Condition(lambda: self.flags["ehs"]),
                        validate_while_typing=Condition(lambda: self.flags["vwt"]),
                        accept_handler=self._accept, multiline=True)

    def _accept(self, buff):
        self.accepted.append(buff.document.text)
        return self.flags["keep"]

    def snap(self):
        return snap(self.b, self.h, self.app, self.flags["ehs"], self.gated)

    async def apply(self, op):
        """apply one op to the real Buffer; return the out token"""
        b, k = self.b, op[0]
        if k == "ins":
            b.insert_text(op[1])
        elif k == "delb":
            b.delete_before_cursor(op[1])
        elif k == "text":
            b.text = op[1]
        elif k == "cur":
            b.cursor_position = op[1]
        elif k == "left":
            b.cursor_left()
        elif k == "right":
            b.cursor_right()
        elif k == "home":
            b.cursor_position += b.document.get_start_of_line_position(after_whitespace=False)
        elif k == "end":
            b.cursor_position += b.document.get_end_of_line_position()
        elif k == "hb":
            b.history_backward(count=op[1])
        elif k == "hf":
            b.history_forward(count=op[1])
        elif k == "goto":
            b.go_to_history(op[1])
        elif k == "endhist":
            b.history_forward(count=10 ** 100)
            b.go_to_history(len(b._working_lines) - 1)
        elif k in ("aup", "adown"):
            try:
                (b.auto_up if k == "aup" else b.auto_down)(
                    count=op[1], go_to_start_of_line_if_history_changes=bool(op[2]))
            except AssertionError:
                return "aerr"
        elif k == "ehs":
            self.flags["ehs"] = bool(op[1])
        elif k == "validate":
            return "b1" if b.validate(set_cursor=bool(op[1])) else "b0"
        elif k == "avalidate":
            await spin(4)
        elif k == "accept":
            self.flags["keep"] = bool(op[1])
            n = len(self.accepted)
            b.validate_and_handle()
            if len(self.accepted) > n:
                return "acc:" + enc_str(self.accepted[-1])
            return "rej"
        elif k == "append":
            b.append_to_history()
        elif k == "reset":
            b.reset(Document(op[1], op[2]))
        elif k == "startload":
            b.load_history_if_not_yet_loaded()
            await spin(4)
        elif k == "loadone":
            h = self.h
            if (self.gated and b._load_history_task is not None and not b._load_history_task.done()
                    and h.sem is not None and h.yielded < len(h.snapshot)):
                y = h.yielded
                h.sem.release()
                for _ in range(20):
                    await asyncio.sleep(0)
                    if h.yielded > y:
                        break
            await spin(4)
        else:
            raise ValueError(op)
        return "-"


def init_lines(case):
    hs = " ".join(enc_str(x) for x in case["hist"])
    return [("init %d %d %s" % (case["ehs"], case["vwt"], hs)).rstrip(),
            "val %d %s %d %d" % (case["val"][0], enc_str(case["val"][1]), case["val"][2], case["val"][3])]


def op_line(op):
    k = op[0]
    if k in ("ins", "text"):
        return f"{k} {enc_str(op[1])}"
    if k == "reset":
        return f"reset {enc_str(op[1])} {op[2]}"
    return " ".join(str(int(x)) if isinstance(x, bool) else str(x) for x in op)


def buf_model_lines(case):
    out = init_lines(case)
    gated = case.get("gated", True)
    for op in case["ops"]:
        if op[0] == "startload":
            # the loader's first step and the validator tasks run in the same turns of the loop:
            # only the state after all of them is observable
            out.append("q startload")
            if not gated:
                out.append("q loadall")
            out.append("avalidate")
        elif op[0] == "loadone":
            out.append("q loadone")
            out.append("avalidate")
        else:
            out.append(op_line(op))
    return out


async def buf_trace(case, app):
    """run the case on the real code: list of (op, before, after, out)"""
    rig = BufRig(case, app)
    s0 = rig.snap()
    trace = [(None, None, s0, "-")]
    try:
        for op in case["ops"]:
            before = trace[-1][2]
            o = await rig.apply(op)
            trace.append((op, before, rig.snap(), o))
    finally:
        for t in list(app._background_tasks):
            t.cancel()
        if rig.b._load_history_task is not None:
            rig.b._load_history_task.cancel()
        await spin(3)
    return trace


def buf_lines_from_trace(case, trace):
    gated = case.get("gated", True)
    l0 = snap_line(trace[0][2])
    out = [l0, l0]
    for op, _before, after, o in trace[1:]:
        if op[0] == "startload":
            out.append("-")
            if not gated:
                out.append("-")
            out.append(snap_line(after))
        elif op[0] == "loadone":
            out.append("-")
            out.append(snap_line(after))
        else:
            out.append(snap_line(after, o))
    return out


# ------------------------------------------------------------------ kind "sess"
KEYSEQ = {
    "backspace": "\x7f", "left": "\x1b[D", "right": "\x1b[C", "home": "\x01", "end": "\x05",
    "up": "\x1b[A", "down": "\x1b[B", "c-p": "\x10", "c-n": "\x0e",
    "prevhist": "\x1b[1;5A", "nexthist": "\x1b[1;5B", "pgup": "\x1b[5~", "pgdn": "\x1b[6~",
    "beginhist": "\x1b<", "endhist": "\x1b>", "enter": "\r",
}
ARG_KEYS = ("up", "down", "c-p", "prevhist", "nexthist")


def key_bytes(key):
    name = key[0]
    if name == "char":
        return key[1]
    pre = ""
    if name in ARG_KEYS and len(key) > 1 and key[1] != 1:
        a = key[1]
        if a < 0:
            pre = "\x1b-"
            if a != -1:
                pre += "".join("\x1b" + d for d in str(-a))
        else:
            pre = "".join("\x1b" + d for d in str(a))
    alt = len(key) > 2 and key[2]
    seq = KEYSEQ["pgup" if name == "prevhist" and alt else "pgdn" if name == "nexthist" and alt else name]
    return pre + seq


def key_model_line(key):
    name = key[0]
    if name == "char":
        return "key char " + enc_str(key[1])
    if name in ARG_KEYS:
        return f"key {name} {key[1] if len(key) > 1 else 1}"
    return "key " + name


def vi_key_bytes(key):
    name = key[0]
    if name == "char":
        return key[1]
    if name in ("k", "j", "G"):
        n = key[1]
        return ("" if (n == 1 and name != "G") else str(n)) + name
    if name in ("up", "down"):
        n = key[1]
        return ("" if n == 1 else str(n)) + KEYSEQ[name]
    return {"backspace": "\x7f", "escape": "\x1b", "i": "i", "a": "a", "enter": "\r"}[name]


def vi_key_model_line(key):
    name = key[0]
    if name == "char":
        return "vkey char " + enc_str(key[1])
    if name in ("k", "j", "G", "up", "down"):
        return f"vkey {name} {key[1]}"
    return "vkey " + name


def sess_model_lines(case):
    out = init_lines(case)
    for p in case["prompts"]:
        if p.get("accept_default"):
            out.append("promptacc " + enc_str(p["default"]))
            continue
        out.append("prompt " + enc_str(p["default"]))
        for key in p["keys"]:
            out.append(vi_key_model_line(key) if case["kind"] == "vi" else key_model_line(key))
    return out


async def settle(task, n=8):
    for _ in range(n):
        if task.done():
            break
        await asyncio.sleep(0)


async def finish(task):
    try:
        return await asyncio.wait_for(task, 3)
    except asyncio.TimeoutError:
        task.cancel()
        raise


async def sess_trace(case):
    """run the case on a real PromptSession: (lines, events)"""
    holder = [None]
    del _ERRORS[:]
    try:
        return await sess_trace1(case, holder)
    finally:
        t = holder[0]
        if t is not None and not t.done():
            t.cancel()
            try:
                await asyncio.wait_for(t, 2)
            except BaseException:
                pass
        del _ERRORS[:]


async def sess_trace1(case, holder):
    lines, events = [], []
    vi = case["kind"] == "vi"
    with create_pipe_input() as inp:
        h = InMemoryHistory(list(case["hist"]))
        session = PromptSession(history=h, input=inp, output=DummyOutput(),
                                validator=ScriptedValidator(list(case["val"])),
                                enable_history_search=bool(case["ehs"]),
                                validate_while_typing=bool(case["vwt"]), interrupt_exception=Abort,
                                editing_mode=EditingMode.VI if vi else EditingMode.EMACS)
        b, app = session.default_buffer, session.app
        if vi:
            # a lone Escape is flushed by the input / key-processor timeouts: make them immediate
            app.ttimeoutlen = 0
            app.timeoutlen = 0

        def navflag():
            from prompt_toolkit.key_binding.vi_state import InputMode
            return "1 " if app.vi_state.input_mode == InputMode.NAVIGATION else "0 "

        def sn():
            return snap(b, h, app, case["ehs"], False)

        l0 = snap_line(sn())
        lines += [l0, l0]
        for p in case["prompts"]:
            before = sn()
            if p.get("accept_default"):
                task = asyncio.ensure_future(session.prompt_async(default=p["default"], accept_default=True,
                                                                   set_exception_handler=False))
                holder[0] = task
                await settle(task, 12)
                check_errors()
                if task.done() or app.is_done:
                    res = await finish(task)
                    after = sn()
                    lines.append(snap_line(after, "acc:" + enc_str(res)))
                    events.append({"ev": "accept", "text": p["default"], "result": res, "before": before,
                                   "after": after, "site": "prompt(accept_default=True)"})
                else:
                    after = sn()
                    lines.append(snap_line(after, "rej"))
                    events.append({"ev": "reject", "text": p["default"], "before": before, "after": after,
                                   "fresh": True, "site": "prompt(accept_default=True)"})
                    inp.send_text("\x03")
                    try:
                        await finish(task)
                    except Abort:
                        pass
                continue
            task = asyncio.ensure_future(session.prompt_async(default=p["default"], set_exception_handler=False))
            holder[0] = task
            await settle(task, 10)
            check_errors()
            s = sn()
            lines.append(snap_line(s))
            events.append({"ev": "start", "after": s, "default": p["default"]})
            done = False
            for key in p["keys"]:
                if done:
                    lines.append("after-accept")
                    continue
                before = sn()
                inp.send_text(vi_key_bytes(key) if vi else key_bytes(key))
                await settle(task, 12 if vi else 10)
                check_errors()
                nv = navflag() if vi else ""
                if key[0] == "enter" and (task.done() or app.is_done):
                    res = await finish(task)
                    done = True
                    after = sn()
                    lines.append(snap_line(after, nv + "acc:" + enc_str(res)))
                    events.append({"ev": "accept", "text": before["text"], "result": res, "before": before,
                                   "after": after, "site": "accept-line"})
                elif key[0] == "enter":
                    after = sn()
                    lines.append(snap_line(after, nv + "rej"))
                    events.append({"ev": "reject", "text": before["text"], "before": before, "after": after,
                                   "fresh": before["vstate"] == "U", "site": "accept-line",
                                   "vi_nav": nv.startswith("1")})
                else:
                    after = sn()
                    lines.append(snap_line(after, nv + "-"))
                    events.append({"ev": "key", "key": key, "before": before, "after": after})
            if not done:
                before = sn()
                inp.send_text("\x03")
                try:
                    await finish(task)
                except Abort:
                    pass
                events.append({"ev": "abort", "before": before, "after": sn()})
    return lines, events


# ------------------------------------------------------------------ plugin API
_CACHE = {"key": None, "val": None}


def run_real(case):
    """trace of the real code for this case (memoised for the impl_lines / oracle pair)"""
    key = json.dumps(case, sort_keys=True)
    if _CACHE["key"] == key:
        if isinstance(_CACHE["val"], BaseException):
            raise _CACHE["val"]
        return _CACHE["val"]
    try:
        val = run_real1(case)
    except Exception as e:
        _CACHE["key"], _CACHE["val"] = key, e
        raise
    _CACHE["key"], _CACHE["val"] = key, val
    return val


def run_real1(case):
    loop = get_loop()
    asyncio.set_event_loop(loop)
    if case["kind"] == "buf":
        app = _get_app()

        async def go():
            with set_app(app):
                return await buf_trace(case, app)

        return loop.run_until_complete(go())
    return loop.run_until_complete(asyncio.wait_for(sess_trace(case), 12))


def model_lines(case):
    if case["kind"] == "buf":
        return buf_model_lines(case)
    return sess_model_lines(case)


def impl_lines(case):
    r = run_real(case)
    if case["kind"] == "buf":
        return buf_lines_from_trace(case, r)
    return r[0]


# ------------------------------------------------------------------ generators
HALPHA = ["a", "ab", "b", "a\nb"]
PAIR_OPS = [["hb", 1], ["hb", 2], ["hb", 0], ["hb", -1], ["hf", 1], ["hf", 2], ["aup", 1, 0], ["adown", 1, 0],
            ["aup", 2, 1], ["goto", 0], ["goto", 1], ["endhist"], ["ins", "x"], ["delb", 1], ["home"],
            ["accept", 1], ["accept", 0]]


def exhaustive_cases(maxn):
    for n in range(maxn + 1):
        for hist in itertools.product(HALPHA, repeat=n):
            for typed in ("", "a", "ab"):
                for ehs in (0, 1):
                    pre = [["startload"]] + [["loadone"]] * n + ([["ins", typed]] if typed else [])
                    for o1 in PAIR_OPS:
                        for o2 in PAIR_OPS:
                            yield {"kind": "buf", "hist": list(hist), "ehs": ehs, "vwt": 0, "gated": True,
                                   "val": [1, "x", 1, 1], "ops": pre + [o1, o2]}


RT = ["", "a", "ab", "b", "a\nb", "ab\nc", "abc", "ba", "é", "世a", "x", "ax", "a b", " a", "b "]


def rand_text(rng):
    return rng.choice(RT)


def rand_val(rng):
    m = rng.choice([0, 0, 1, 1, 1])
    needle = rng.choice(["x", "a", "", "b", "\n"])
    return [m, needle, rng.randrange(3), rng.choice([-2, -1, 0, 1, 2, 3, 7])]


def rand_buf_op(rng):
    k = rng.randrange(100)
    cnt = rng.choice([1, 1, 1, 2, 2, 3, 0, -1, 5, 10 ** 3])
    if k < 14:
        return ["hb", cnt]
    if k < 26:
        return ["hf", cnt]
    if k < 36:
        return ["aup", rng.choice([1, 1, 2, 3, 0, -1]), rng.randrange(2)]
    if k < 46:
        return ["adown", rng.choice([1, 1, 2, 3, 0, -1]), rng.randrange(2)]
    if k < 50:
        return ["goto", rng.randrange(0, 6)]
    if k < 53:
        return ["endhist"]
    if k < 61:
        return ["ins", rng.choice(["a", "b", "x", "ab", "\n", "é", " "])]
    if k < 66:
        return ["delb", rng.choice([1, 1, 2, 5])]
    if k < 69:
        return ["text", rand_text(rng)]
    if k < 73:
        return ["cur", rng.randrange(-1, 6)]
    if k < 79:
        return [rng.choice(["left", "right", "home", "end"])]
    if k < 81:
        return ["ehs", rng.randrange(2)]
    if k < 83:
        return ["validate", rng.randrange(2)]
    if k < 85:
        return ["avalidate"]
    if k < 91:
        return ["accept", rng.randrange(2)]
    if k < 92:
        return ["append"]
    if k < 94:
        t = rand_text(rng)
        return ["reset", t, rng.randrange(0, len(t) + 1)]
    if k < 96:
        return ["startload"]
    return ["loadone"]


def rand_buf_case(rng):
    n = rng.choice([0, 1, 2, 3, 3, 4, 5, 8])
    hist = [rng.choice(RT[1:]) if rng.random() < 0.9 else "" for _ in range(n)]
    if n >= 2 and rng.random() < 0.4:
        hist[rng.randrange(n)] = hist[rng.randrange(n)]   # duplicates
    gated = rng.random() < 0.8
    ops = []
    if rng.random() < 0.85:
        ops.append(["startload"])
        if gated:
            ops += [["loadone"]] * rng.choice([n, n, n, max(0, n - 1), n // 2, 0])
    for _ in range(rng.randrange(1, 30)):
        op = rand_buf_op(rng)
        ops.append(op)
        if op[0] in ("hb", "hf") and rng.random() < 0.5:
            # back k / forward k pairs for the oracle's round-trip clause
            ops.append(["hf" if op[0] == "hb" else "hb", op[1]])
        if op[0] == "reset" or (op[0] == "accept" and op[1] == 0):
            if rng.random() < 0.8:
                ops.append(["startload"])
                if gated:
                    ops += [["loadone"]] * rng.randrange(0, n + 3)
    return {"kind": "buf", "hist": hist, "ehs": rng.randrange(2), "vwt": rng.choice([0, 0, 1]),
            "gated": gated, "val": rand_val(rng), "ops": ops}


def rand_key(rng):
    k = rng.randrange(100)
    arg = rng.choice([1, 1, 1, 1, 2, 3, 12, 0, -1, -2])
    harg = rng.choice([1, 1, 1, 2, 3, 0, -1, -2, 12])
    if k < 22:
        return ["up", arg]
    if k < 38:
        return ["down", arg]
    if k < 43:
        return ["c-p", arg]
    if k < 47:
        return ["c-n"]
    if k < 55:
        return ["prevhist", harg, rng.randrange(2)]
    if k < 62:
        return ["nexthist", harg, rng.randrange(2)]
    if k < 65:
        return ["beginhist"]
    if k < 68:
        return ["endhist"]
    if k < 82:
        return ["char", rng.choice(["a", "b", "x", "c", "é", " "])]
    if k < 87:
        return ["backspace"]
    if k < 95:
        return [rng.choice(["left", "right", "home", "end"])]
    return ["enter"]


def rand_sess_case(rng):
    n = rng.choice([0, 1, 2, 3, 3, 4, 6])
    hist = [rng.choice(RT[1:]) for _ in range(n)]
    if n >= 2 and rng.random() < 0.4:
        hist[rng.randrange(n)] = hist[rng.randrange(n)]
    prompts = []
    for _ in range(rng.randrange(1, 5)):
        if rng.random() < 0.12:
            d = (hist[-1] if hist else "a") if rng.random() < 0.5 else rand_text(rng)
            prompts.append({"default": d, "accept_default": True, "keys": []})
            continue
        keys = []
        for _ in range(rng.randrange(1, 10)):
            key = rand_key(rng)
            keys.append(key)
            if key[0] in ("prevhist", "nexthist") and rng.random() < 0.4:
                keys.append(["nexthist" if key[0] == "prevhist" else "prevhist", key[1], 0])
        if rng.random() < 0.9:
            keys.append(["enter"])
        prompts.append({"default": rng.choice(["", "", "", "a", "ab", "a\nb"]), "keys": keys})
    val = rand_val(rng)
    if val[0] == 1 and val[1] == "":
        val[1] = "x"
    return {"kind": "sess", "hist": hist, "ehs": rng.randrange(2), "vwt": rng.choice([0, 1]), "val": val,
            "prompts": prompts}


def rand_vi_case(rng):
    n = rng.choice([0, 1, 2, 3, 3, 4, 6])
    hist = [rng.choice(RT[1:]) for _ in range(n)]
    if n >= 2 and rng.random() < 0.4:
        hist[rng.randrange(n)] = hist[rng.randrange(n)]
    prompts = []
    for _ in range(rng.randrange(1, 4)):
        nav = False
        keys = []
        for _ in range(rng.randrange(1, 12)):
            r = rng.randrange(100)
            arg = rng.choice([1, 1, 1, 2, 3, 12])
            if not nav:
                if r < 30:
                    keys.append(["char", rng.choice(["a", "b", "x", "c", "k", "j", " "])])
                elif r < 38:
                    keys.append(["backspace"])
                elif r < 55:
                    keys.append(["up", 1])
                elif r < 65:
                    keys.append(["down", 1])
                elif r < 95:
                    keys.append(["escape"]); nav = True
                else:
                    keys.append(["enter"])
            else:
                if r < 30:
                    keys.append(["k", arg])
                elif r < 50:
                    keys.append(["j", arg])
                elif r < 58:
                    keys.append(["up", arg])
                elif r < 65:
                    keys.append(["down", arg])
                elif r < 75:
                    keys.append(["G", rng.choice([1, 1, 2, 3, 5, 9])])
                elif r < 80:
                    keys.append(["escape"])
                elif r < 87:
                    keys.append(["i"]); nav = False
                elif r < 94:
                    keys.append(["a"]); nav = False
                else:
                    keys.append(["enter"])
        if rng.random() < 0.9:
            keys.append(["enter"])
        prompts.append({"default": rng.choice(["", "", "", "a", "ab", "a\nb"]), "keys": keys})
    val = rand_val(rng)
    if val[0] == 1 and val[1] == "":
        val[1] = "x"
    return {"kind": "vi", "hist": hist, "ehs": rng.randrange(2), "vwt": rng.choice([0, 1]), "val": val,
            "prompts": prompts}


def cases(tier, rng):
    maxn = 2 if tier == "quick" else 3
    yield from exhaustive_cases(maxn)
    nbuf = 2500 if tier == "quick" else 60000
    for _ in range(nbuf):
        yield rand_buf_case(rng)
    nsess = 200 if tier == "quick" else 5000
    for _ in range(nsess):
        yield rand_sess_case(rng)
    nvi = 100 if tier == "quick" else 2500
    for _ in range(nvi):
        yield rand_vi_case(rng)


# ------------------------------------------------------------------ oracle
# The property restated over what the REAL objects show before / after every step
# (written without reference to the Lean model).
NAV_OPS = ("hb", "hf", "goto", "endhist", "aup", "adown", "left", "right", "home", "end", "cur", "ehs",
           "validate", "avalidate")
EDIT_OPS = ("ins", "delb", "text")
KEY_NAV = ("up", "down", "c-p", "c-n", "prevhist", "nexthist", "beginhist", "endhist", "left", "right", "home", "end",
           "k", "j", "G", "escape", "i", "a")
KEY_EDIT = ("char", "backspace")
STEP_NAV = ("hb", "hf", "aup", "adown", "up", "down", "c-p", "c-n", "prevhist", "nexthist")


def clamp(p, n):
    return min(max(0, p), n)


def eff_prefix(before):
    """the prefix an up/down step filters on when it starts in state `before`"""
    if not before["ehs"]:
        return None
    if before["search"] is not None:
        return before["search"]
    return before["text"][:before["cur"]]


class Viol:
    def __init__(self):
        self.v = []
        self.seen = set()

    def add(self, site, cond, msg):
        sig = f"{site} | {cond}"
        if sig not in self.seen:
            self.seen.add(sig)
            self.v.append({"signature": sig, "msg": msg[:1200]})


def wf(V, site, st, desc):
    if not (0 <= st["idx"] < len(st["work"])):
        V.add(site, "working_index out of range", f"{desc}: idx={st['idx']} len(work)={len(st['work'])}")
        return False
    if not (0 <= st["cur"] <= len(st["text"])):
        V.add(site, "cursor out of range", f"{desc}: cur={st['cur']} text={st['text']!r}")
    return True


class PrefixTracker:
    """What the user has typed as search prefix, tracked from the outside: the text before the
    cursor at the first up/down/page step after the last change of the text (None = no search
    running / prefix search off).  Deliberately ignores Buffer.history_search_text."""

    def __init__(self):
        self.typed = None

    def text_changed(self):
        self.typed = None

    def history_step(self, before):
        """a step that really goes to the history loops (not a cursor move inside the text)"""
        if not before["ehs"]:
            self.typed = None
        elif self.typed is None:
            self.typed = before["text"][:before["cur"]]
        return self.typed


def takes_history_branch(name, before, count=1):
    """auto_up / auto_down move inside a multi-line text when they can; a count of zero does
    nothing and a negative count goes the other way"""
    up, down = ("aup", "up", "c-p", "k"), ("adown", "down", "c-n", "j")
    if name in up + down:
        if count == 0:
            return False
        go_up = (name in up) == (count > 0)
        if go_up:
            return "\n" not in before["text"][:before["cur"]]
        return "\n" not in before["text"][before["cur"]:]
    return name in ("hb", "hf", "prevhist", "nexthist", "endhist")


def check_nav(V, site, name, before, after, desc, tracker, count=1):
    """an up/down/page/goto/cursor step: stored history, working copies untouched"""
    if after["storage"] != before["storage"] or after["hist"] != before["hist"]:
        V.add(site, "navigation changed the stored history",
              f"{desc}: {before['storage']!r}/{before['hist']!r} -> {after['storage']!r}/{after['hist']!r}")
    if after["work"] != before["work"]:
        V.add(site, "navigation changed a working copy", f"{desc}: {before['work']!r} -> {after['work']!r}")
    if takes_history_branch(name, before, count):
        typed = tracker.history_step(before)
        if name != "endhist" and after["idx"] != before["idx"]:
            if typed is not None and not after["text"].startswith(typed):
                V.add(site, "prefix search reached an entry without the prefix",
                      f"{desc}: typed prefix={typed!r} (Buffer.history_search_text={after['search']!r}) "
                      f"reached={after['text']!r}")
        if after["search"] != typed:
            V.add(site, "remembered search text is not the typed prefix",
                  f"{desc}: typed prefix={typed!r} Buffer.history_search_text={after['search']!r}")


def check_edit(V, site, before, after, desc):
    if after["storage"] != before["storage"] or after["hist"] != before["hist"]:
        V.add(site, "edit changed the stored history", f"{desc}")
    if after["idx"] != before["idx"] or len(after["work"]) != len(before["work"]):
        V.add(site, "edit moved to another entry", f"{desc}: idx {before['idx']} -> {after['idx']}")
    else:
        for j, (x, y) in enumerate(zip(before["work"], after["work"])):
            if j != before["idx"] and x != y:
                V.add(site, "edit changed another working copy", f"{desc}: entry {j}: {x!r} -> {y!r}")


def count_matches(work, idxs, p):
    return sum(1 for j in idxs if p is None or work[j].startswith(p))


STALE_SIG = ("go_to_history / end-of-history", "stale search filter: back k / forward k does not return")


def check_round_trip(V, site, first, k, s0, s2, desc):
    """back k then forward k (or forward k then back k), k not exceeding the entries available
    in that direction: same entry and text again.  When the current entry is one the remembered
    filter rejects (only reachable through the unfiltered jumps go_to_history / end-of-history)
    a failure is reported under the known-finding signature."""
    if k < 1:
        return
    p = eff_prefix(s0)
    stale = p is not None and not s0["text"].startswith(p)
    idxs = range(0, s0["idx"]) if first == "back" else range(s0["idx"] + 1, len(s0["work"]))
    if k > count_matches(s0["work"], idxs, p):
        return
    if s2["idx"] != s0["idx"] or s2["text"] != s0["text"]:
        msg = (f"{desc}: k={k} first={first} from idx={s0['idx']} text={s0['text']!r} prefix={p!r} "
               f"work={s0['work']!r} -> idx={s2['idx']} text={s2['text']!r}")
        if stale:
            V.add(STALE_SIG[0], STALE_SIG[1], msg)
        else:
            V.add(site, "back k / forward k does not return", msg)


def vi_rest(text, pos):
    """where the cursor rests in vi navigation mode: never after the last character of a
    non-empty line (KeyProcessor._fix_vi_cursor_position runs after every handler)"""
    at_eol = pos >= len(text) or text[pos] == "\n"
    start = text.rfind("\n", 0, pos) + 1
    end = text.find("\n", pos)
    end = len(text) if end < 0 else end
    if at_eol and end - start > 0:
        return pos - 1
    return pos


def check_accept(V, site, spec, before, after, out, keep, desc, vi_nav=False):
    text = before["text"]
    pos = verdict(spec, text)
    if pos is not None:
        # the validator does not pass: nothing may happen except the cursor move of a fresh verdict
        if out != "rej":
            V.add(site, "accepted although the validator fails", f"{desc}: text={text!r} out={out}")
        if after["text"] != text or after["work"] != before["work"] or after["idx"] != before["idx"]:
            V.add(site, "reject changed the text", f"{desc}: {before['work']!r} -> {after['work']!r}")
        if after["storage"] != before["storage"] or after["hist"] != before["hist"]:
            V.add(site, "reject appended to the history", f"{desc}: {before['storage']!r} -> {after['storage']!r}")
        want = clamp(pos, len(text))
        if vi_nav:
            want = vi_rest(text, want)
        if before["vstate"] == "U" and after["cur"] != want:
            V.add(site, "fresh verdict: cursor not at the clamped error position",
                  f"{desc}: text={text!r} reported={pos} cursor={after['cur']} wanted={want}")
        return
    if out != "acc:" + enc_str(text):
        V.add(site, "validator passes but the text was not accepted/returned", f"{desc}: text={text!r} out={out}")
        return
    newest = before["storage"][-1] if before["storage"] else None
    want = before["storage"] + [text] if (text != "" and newest != text) else before["storage"]
    if after["storage"] != want:
        if text != "" and newest == text and not before["hloaded"]:
            V.add("Buffer.append_to_history", "history not loaded yet: duplicate of the newest entry appended",
                  f"{desc}: accepted {text!r}, stored history {before['storage']!r} -> {after['storage']!r}")
        else:
            V.add(site, "accept did not append exactly once",
                  f"{desc}: accepted {text!r}, stored history {before['storage']!r} -> {after['storage']!r}, wanted {want!r}")
    if keep is False and (after["work"] != [""] or after["idx"] != 0):
        V.add(site, "buffer not reset after accept", f"{desc}: work={after['work']!r}")


def check_clean(V, site, st, default, desc):
    if st["work"] != st["hist"] + [default] or st["idx"] != len(st["hist"]):
        V.add(site, "next prompt does not start from history + [default]",
              f"{desc}: work={st['work']!r} idx={st['idx']} hist={st['hist']!r} default={default!r}")


def buf_oracle(case, trace):
    V = Viol()
    spec = case["val"]
    clean_default = None      # text given to the last reset, while nothing else has happened since
    tracker = PrefixTracker()
    for i in range(1, len(trace)):
        op, before, after, out = trace[i]
        k = op[0]
        site = "Buffer." + {"hb": "history_backward", "hf": "history_forward", "goto": "go_to_history",
                            "aup": "auto_up", "adown": "auto_down", "endhist": "end-of-history",
                            "accept": "validate_and_handle", "ins": "insert_text", "delb": "delete_before_cursor",
                            "text": "text", "loadone": "load_history", "startload": "load_history",
                            "reset": "reset", "append": "append_to_history"}.get(k, k)
        desc = f"op {i - 1} {op}"
        if not wf(V, site, after, desc):
            break
        if k in NAV_OPS:
            check_nav(V, site, k, before, after, desc, tracker,
                      count=op[1] if k in ("aup", "adown") else 1)
            if k == "validate" and verdict(spec, before["text"]) is not None and out == "b1":
                V.add(site, "validate() true although the validator fails", desc)
        elif k in EDIT_OPS:
            check_edit(V, site, before, after, desc)
            if after["text"] != before["text"]:
                tracker.text_changed()
        elif k == "startload":
            if after["storage"] != before["storage"] or after["work"] != before["work"] and not case.get("gated", True) is False:
                pass
            if after["storage"] != before["storage"]:
                V.add(site, "loading changed the stored history", desc)
            if after["hist"] != after["storage"]:
                V.add(site, "loaded strings differ from the stored history", desc)
            if after["text"] != before["text"]:
                V.add(site, "loading changed the current entry", desc)
        elif k == "loadone":
            n = len(after["work"]) - len(before["work"])
            if (after["storage"] != before["storage"] or after["hist"] != before["hist"] or n < 0
                    or after["work"][n:] != before["work"] or after["idx"] != before["idx"] + n
                    or after["text"] != before["text"] or after["cur"] != before["cur"]):
                V.add(site, "loader item disturbed the entries or the position",
                      f"{desc}: {before['work']!r}@{before['idx']} -> {after['work']!r}@{after['idx']}")
        elif k == "accept":
            check_accept(V, site, spec, before, after, out, bool(op[1]), desc)
            if out.startswith("acc:") and not op[1]:
                tracker.text_changed()
        elif k == "append":
            text = before["text"]
            newest = before["storage"][-1] if before["storage"] else None
            want = before["storage"] + [text] if (text != "" and newest != text) else before["storage"]
            if after["storage"] != want and not (text != "" and newest == text and not before["hloaded"]):
                V.add(site, "append_to_history did not append exactly once", desc)
            if after["work"] != before["work"]:
                V.add(site, "append_to_history changed a working copy", desc)
        elif k == "reset":
            tracker.text_changed()
            if after["storage"] != before["storage"] or after["hist"] != before["hist"]:
                V.add(site, "reset changed the stored history", desc)
        # round trips
        if k in ("hb", "hf") and i + 1 < len(trace):
            op2 = trace[i + 1][0]
            if op2[0] == ("hf" if k == "hb" else "hb") and op2[1] == op[1]:
                check_round_trip(V, "Buffer.history_backward/forward", "back" if k == "hb" else "fwd",
                                 op[1], before, trace[i + 1][2], desc)
        # clean start of the next prompt
        if k == "reset":
            clean_default = op[1]
        elif k == "accept" and out.startswith("acc:") and not op[1]:
            clean_default = ""
        elif k not in ("startload", "loadone", "avalidate", "ehs"):
            clean_default = None
        if clean_default is not None and after["loading"] and not after["pending"] and k in ("startload", "loadone"):
            check_clean(V, "Buffer.reset + load_history", after, clean_default, desc)
    return V.v


def sess_oracle(case, events):
    V = Viol()
    spec = case["val"]
    last_storage = list(case["hist"])
    tracker = PrefixTracker()
    for n, e in enumerate(events):
        ev = e["ev"]
        desc = f"event {n} {ev} {e.get('key', '')}"
        after = e["after"]
        if not wf(V, "PromptSession", after, desc):
            break
        if ev == "start":
            if after["storage"] != last_storage:
                V.add("PromptSession.prompt", "stored history changed between prompts",
                      f"{desc}: {last_storage!r} -> {after['storage']!r}")
            check_clean(V, "PromptSession.prompt", after, e["default"], desc)
            tracker.text_changed()
        elif ev == "key":
            name = e["key"][0]
            before = e["before"]
            if name in KEY_NAV:
                kk = e["key"]
                check_nav(V, "key " + name, name, before, after, desc, tracker,
                          count=kk[1] if name in ("up", "down", "c-p", "k", "j") and len(kk) > 1 else 1)
            elif name in KEY_EDIT:
                check_edit(V, "key " + name, before, after, desc)
                if after["text"] != before["text"]:
                    tracker.text_changed()
            # round trip on consecutive prevhist k / nexthist k
            if name in ("prevhist", "nexthist") and n + 1 < len(events) and events[n + 1]["ev"] == "key":
                k2 = events[n + 1]["key"]
                if k2[0] == ("nexthist" if name == "prevhist" else "prevhist") and k2[1] == e["key"][1]:
                    check_round_trip(V, "previous-history/next-history", "back" if name == "prevhist" else "fwd",
                                     e["key"][1], before, events[n + 1]["after"], desc)
        elif ev in ("accept", "reject"):
            before = e["before"]
            if e["site"].startswith("prompt("):
                # accept_default: `before` is the state before prompt(); the accepted text is the default
                b2 = dict(before, text=e["text"], vstate="U", work=None, idx=None)
                text = e["text"]
                pos = verdict(spec, text)
                if (pos is None) != (ev == "accept"):
                    V.add(e["site"], "accept_default verdict differs from the validator", desc)
                if ev == "accept":
                    if e["result"] != text:
                        V.add(e["site"], "returned value differs from the accepted text", desc)
                    newest = before["storage"][-1] if before["storage"] else None
                    want = before["storage"] + [text] if (text != "" and newest != text) else before["storage"]
                    if after["storage"] != want:
                        if text != "" and newest == text and not before["hloaded"]:
                            V.add("Buffer.append_to_history",
                                  "history not loaded yet: duplicate of the newest entry appended",
                                  f"{desc}: prompt(default={text!r}, accept_default=True) with stored history "
                                  f"{before['storage']!r} -> {after['storage']!r}")
                        else:
                            V.add(e["site"], "accept did not append exactly once",
                                  f"{desc}: {before['storage']!r} -> {after['storage']!r}, wanted {want!r}")
                else:
                    if after["storage"] != before["storage"]:
                        V.add(e["site"], "reject appended to the history", desc)
                    if after["text"] != text:
                        V.add(e["site"], "reject changed the text", desc)
                    if after["cur"] != clamp(pos, len(text)):
                        V.add(e["site"], "fresh verdict: cursor not at the clamped error position", desc)
                del b2
            else:
                out = ("acc:" + enc_str(e["result"])) if ev == "accept" else "rej"
                check_accept(V, e["site"], spec, before, after, out, None, desc, vi_nav=bool(e.get("vi_nav")))
        elif ev == "abort":
            if after["storage"] != e["before"]["storage"]:
                V.add("PromptSession.prompt", "abort changed the stored history", desc)
        last_storage = after["storage"]
    return V.v


def oracle(case):
    r = run_real(case)
    if case["kind"] == "buf":
        return buf_oracle(case, r)
    return sess_oracle(case, r[1])


def sample_view(case):
    return case


def nontrivial(case):
    if not case["hist"]:
        return False
    if case["kind"] == "buf":
        return any(op[0] in ("hb", "hf", "aup", "adown", "goto", "endhist") for op in case["ops"])
    return any(k[0] in ("up", "down", "c-p", "c-n", "prevhist", "nexthist", "beginhist", "endhist", "k", "j", "G")
               for p in case["prompts"] for k in p["keys"])


def distribution(cases):
    d = {"kind": {}, "hist_len": {}, "ops": {}}
    for c in cases:
        d["kind"][c["kind"]] = d["kind"].get(c["kind"], 0) + 1
        n = str(len(c["hist"]))
        d["hist_len"][n] = d["hist_len"].get(n, 0) + 1
        if c["kind"] == "buf":
            for op in c["ops"]:
                d["ops"][op[0]] = d["ops"].get(op[0], 0) + 1
        else:
            for p in c["prompts"]:
                d["ops"]["prompt"] = d["ops"].get("prompt", 0) + 1
                for k in p["keys"]:
                    d["ops"]["key:" + k[0]] = d["ops"].get("key:" + k[0], 0) + 1
    return d


if __name__ == "__main__":
    sys.exit(core.main(sys.modules[__name__]))
