#!/venv/bin/python
"""C11 — cursor visible and on its character after every render:
correspondence with Ptk.Model.C11 + property oracle on the real Window/BufferControl."""
from __future__ import annotations

import asyncio
import itertools
import os
import sys

sys.path.insert(0, os.path.dirname(os.path.abspath(__file__)))
import core
from core import enc_str

from prompt_toolkit.application import Application
from prompt_toolkit.application.current import set_app
from prompt_toolkit.buffer import Buffer
from prompt_toolkit.document import Document
from prompt_toolkit.filters import Condition
from prompt_toolkit.input import DummyInput
from prompt_toolkit.layout import Layout
from prompt_toolkit.layout.containers import ScrollOffsets, Window
from prompt_toolkit.layout.controls import BufferControl
from prompt_toolkit.layout.margins import ConditionalMargin, NumberedMargin, PromptMargin, ScrollbarMargin
from prompt_toolkit.data_structures import Point
from prompt_toolkit.layout.mouse_handlers import MouseHandlers
from prompt_toolkit.mouse_events import MouseButton, MouseEvent, MouseEventType
from prompt_toolkit.layout.processors import (AfterInput, BeforeInput, ConditionalProcessor, DummyProcessor,
                                              DynamicProcessor, HighlightMatchingBracketProcessor,
                                              HighlightSearchProcessor, HighlightSelectionProcessor,
                                              PasswordProcessor, ShowLeadingWhiteSpaceProcessor,
                                              ShowTrailingWhiteSpaceProcessor, TabsProcessor, merge_processors)
from prompt_toolkit.layout.screen import Char, Screen, WritePosition
from prompt_toolkit.output import DummyOutput
from prompt_toolkit.utils import get_cwidth

ID = "C11"
DRIVER = "drv_c11"
PROPS = ["Ptk.Props.C11Scroll", "Ptk.Props.C11Copy", "Ptk.Props.C11Lines", "Ptk.Props.C11Window",
         "Ptk.Props.C11Rows", "Ptk.Props.C11Procs", "Ptk.Props.C11Doc", "Ptk.Props.C11Exact",
         "Ptk.Props.C11Gen", "Ptk.Props.C11WrapGen", "Ptk.Props.C11Wide", "Ptk.Props.C11Mouse",
         "Ptk.Props.C11Margin", "Ptk.Props.C11"]
ANCHORS = ["src/prompt_toolkit/layout/containers.py", "src/prompt_toolkit/layout/controls.py",
           "src/prompt_toolkit/layout/processors.py", "src/prompt_toolkit/layout/margins.py",
           "src/prompt_toolkit/layout/screen.py", "src/prompt_toolkit/utils.py"]
# the functions whose bodies Ptk/Model/C11.lean follows line by line AND the correspondence exercises
MODELLED = {
    "src/prompt_toolkit/layout/containers.py": [
        "WindowRenderInfo.displayed_lines",
        "Window._write_to_screen_at_index", "Window._write_to_screen_at_index.mouse_handler",
        "Window._copy_body", "Window._copy_body.copy_line", "Window._copy_body.copy",
        "Window._copy_body.cursor_pos_to_screen_pos", "Window._copy_margin",
        "Window._scroll", "Window._scroll_when_linewrapping", "Window._scroll_when_linewrapping.get_line_height",
        "Window._scroll_when_linewrapping.get_min_vertical_scroll",
        "Window._scroll_when_linewrapping.get_max_vertical_scroll",
        "Window._scroll_when_linewrapping.get_topmost_visible",
        "Window._scroll_without_linewrapping", "Window._scroll_without_linewrapping.do_scroll"],
    "src/prompt_toolkit/layout/controls.py": [
        "UIContent.get_height_for_line", "BufferControl._create_get_processed_line_func.transform",
        "BufferControl.create_content", "BufferControl.create_content.translate_rowcol",
        "BufferControl.create_content.get_line", "BufferControl.mouse_handler"],
    "src/prompt_toolkit/layout/processors.py": [
        "DummyProcessor.apply_transformation", "PasswordProcessor.apply_transformation",
        "BeforeInput.apply_transformation", "AfterInput.apply_transformation",
        "ShowLeadingWhiteSpaceProcessor.apply_transformation", "ShowTrailingWhiteSpaceProcessor.apply_transformation",
        "TabsProcessor.apply_transformation", "TabsProcessor.apply_transformation.source_to_display",
        "TabsProcessor.apply_transformation.display_to_source",
        "ConditionalProcessor.apply_transformation", "DynamicProcessor.apply_transformation", "merge_processors",
        "_MergedProcessor.apply_transformation", "_MergedProcessor.apply_transformation.source_to_display",
        "_MergedProcessor.apply_transformation.display_to_source"],
    "src/prompt_toolkit/layout/margins.py": ["NumberedMargin.get_width", "NumberedMargin.create_margin",
                                             "ScrollbarMargin.get_width", "PromptMargin.get_width",
                                             "ConditionalMargin.get_width"],
    "src/prompt_toolkit/layout/screen.py": ["Char.__init__", "get_display_width"],
    "src/prompt_toolkit/document.py": ["Document.translate_row_col_to_index"],
}
TECHNIQUE = "machine-checked proof (Lean 4) over an executable model + differential correspondence + property oracle"
LEVEL_TEXT = ("Lean 4 theorems over an executable model of rendering a focused text window (position maps of Tabs / "
              "BeforeInput / AfterInput / Password / ShowLeading- and ShowTrailingWhiteSpace / restyling / Conditional / "
              "Dynamic / nested merged processors, BufferControl content with the trailing blank, get_height_for_line, "
              "both scroll algorithms incl. get_vertical_scroll / get_horizontal_scroll callbacks, Window._copy_body with "
              "wrapping / prefixes / horizontal scroll for arbitrary cell widths, NumberedMargin rows, the window's mouse "
              "handler and BufferControl.mouse_handler): after every render, for every previous scroll state, the cursor "
              "cell is drawn inside the window on the cursor's character -- for one-column cells in both wrap modes, for "
              "double-width / zero-width / control characters WITHOUT wrapping for all inputs, WITH wrapping whenever every "
              "displayed line up to the cursor has one-column cells or does not wrap (the exact complement is the known "
              "finding, witnessed in Lean and on the real code); the rows shown are consecutive document lines and the "
              "margin numbers are exactly those rows; the position maps of ANY list of processors with monotone "
              "round-tripping maps compose (n-ary law, nesting = flattening) and the replacing processors keep lengths; a "
              "click on a drawn cell maps back to its (row, col) and a click on the cursor cell back to the cursor index; "
              "tied to /repo on every run by regenerated tables and pinned behavioural probes, a differential "
              "correspondence on the real Window(BufferControl) rendered into a Screen with real MouseHandlers "
              "(exhaustive small scope + random histories) and by the property oracle")
LEVEL_NOTE = ("trusted: Lean kernel, axioms propext/Classical.choice/Quot.sound only; the hand-written model (validated "
              "by the correspondence, not proved equal to the Python); window_size / 2 is exact in IEEE double for "
              "|window_size| < 2^53; the theorems for wide / zero-width / control characters hold for EVERY width function "
              "with dm = true (characters measured as drawn) and a one-column blank: both are re-decided on the "
              "regenerated tables on every run (genW_measures_as_drawn, genW_blank, gen_ok); wrapping with a "
              "non-one-column cell on a displayed line that wraps is the KNOWN finding (correspondence + oracle only)")
RULE = ("exhaustive: every text over {a, newline} (plus tab when a TabsProcessor is applied, plus blank when a "
        "Show*WhiteSpace processor is applied) up to the tier's length bound x content widths 1..4 x heights 1..3 x "
        "wrapping on/off x 18 window configurations (left and right margins: Numbered / Scrollbar / Prompt / Conditional on-off; scroll offsets, previous scroll state, line prefixes of constant "
        "and varying width, numbered margin, scroll callbacks, Tabs/BeforeInput/AfterInput/Password/ShowLeading/"
        "ShowTrailing/restyling/Conditional/Dynamic/nested merged processors), each case rendering ALL cursor positions "
        "one after the other through ONE window (scroll state carries over); a mouse family (5 configurations, every "
        "cell of the window rectangle and one cell around it clicked in the last three states); an any-width family "
        "over {a, double-width, combining accent, raw control character, newline} x widths x heights x wrap x 3 "
        "configurations; a no-wrap family over {a, U+3105, U+AC00, U+1F600, U+0300, U+200B, U+E0100} (code points of "
        "all planes: the generated get_cwidth table covers 0..0x10FFFF); then seeded random histories (1-8 states, lines of length k*w-1, k*w, k*w+1, up to 12 lines, "
        "widths 1..9, heights 1..5, window size and wrap mode changing between states, random clicks and callback "
        "values), a wide / zero-width sub-domain (also wide prompts and processor texts) and a raw control character "
        "sub-domain; a case is non-trivial when some state has to scroll (text longer than one window row or more "
        "lines than the height)")
EXHAUSTIVE = True
EXHAUSTIVE_SCOPE = {
    "quick": "texts over {a,\\n} len<=4 (len<=5 plain configuration; {a,\\n,\\t} or {a,\\n,blank} len<=3 with Tabs / "
             "white-space processors) x w 1..4 x h 1..3 x wrap x 21 configurations, all cursors; mouse: len<=3 x w 1..4 "
             "x h 1..2 x wrap x 5 configurations, all cells clicked; any widths: texts over {a,wide,combining,^A,\\n} "
             "len<=3 x w 1..3 x h 1..2 x wrap x 3 configurations, all cursors; all planes, no wrap: texts over "
             "{a,U+3105,U+AC00,U+1F600,U+0300,U+200B,U+E0100} len<=2 x w 1..3 x h 1..2 x 3 configurations",
    "thorough": "texts over {a,\\n} len<=6 (len<=7 for 3 configurations; len<=4 with TabsProcessor, len<=5 with "
                "white-space processors) x w 1..4 x h 1..3 x wrap x 21 configurations, all cursors; mouse: len<=4; any "
                "widths: len<=4 x w 1..4; all planes, no wrap: len<=3"}
TRUSTED = ["harness/c11.py compares, after every Window.write_to_screen: vertical/horizontal/intra-line scroll, the "
           "content cursor, Screen.cursor_positions[window], render_info.visible_line_to_row_col and _rowcol_to_yx "
           "(in insertion order), the position maps of the cursor line, the columns that got the window's mouse "
           "handler, every cell of the window body and of the numbered margin; after every click: the (row, col) the "
           "window passes to the control and the resulting Buffer.cursor_position",
           "Ptk/Model/C11.lean is a hand translation of the anchored layout code (correspondence-checked); the "
           "functions it follows are listed in MODELLED and hash-pinned",
           "harness/gen_c11.py: get_cwidth for ALL code points 0..0x10FFFF (range-compressed, shape re-decided by "
           "gen_width_tables_wf, bridged to every character by genW_rw_spec) / Char.display_mappings tables "
           "regenerated from the current tree, and "
           "three behavioural probes (does the scroll code measure characters as drawn? does get_height_for_line wrap "
           "non-1-column lines character by character? is the mouse handler installed for the whole body next to a "
           "left margin?) that select the matching model variant; the first is pinned by theorem "
           "genW_measures_as_drawn, the display table by gen_ok"]
ASSUMPTIONS = ["float: window_size / 2 is exact and int() truncates toward zero (|window_size| < 2^53)",
               "get_line_prefix returns plain text depending on (lineno == 0, wrap_count > 0) in the correspondence; "
               "theorems: any prefix function whose prefixes are narrower than the window and measured as drawn (no "
               "control characters in prompts)",
               "ShowTrailingWhiteSpaceProcessor looks at the LAST FRAGMENT, the model at the text: equal when it is "
               "applied first (single lexer fragment), which is how the correspondence configures it",
               "align = LEFT, no menus / floats, cursorline / cursorcolumn (styles only) off",
               "wrapping theorems for non-one-column cells assume the Regular-lines hypothesis (see PARTIAL_SCOPE); "
               "mouse and injectivity theorems assume one-column cells"]
PARTIAL_SCOPE = ["wrapping AND a double-width / zero-width / control character on a DISPLAYED line at or above the "
                 "cursor that WRAPS (it does not fit on one row with its prefix): KNOWN finding -- get_height_for_line "
                 "divides summed widths while copy_line wraps wide cells early; excluded by exactly this condition from "
                 "wrap_cursor_in_window_partial (hypothesis Regular), Lean witnesses wide_wrap_loses_cursor, "
                 "control_wrap_loses_cursor, wide_line_above_loses_cursor; correspondence + oracle only; repair "
                 "proposed_fixes/C11-wide-wrap-height.diff NOT applied (its model variant is proved exact in "
                 "Props/C11Exact and would be selected by a probed flag). Without wrapping, and with wrapping on "
                 "Regular lines, wide / zero-width / control characters ARE covered by theorems",
                 "[ZeroWidthEscape] fragments in a BeforeInput prompt: modelled and proved (shift = fragment_list_len = "
                 "visible characters, no cell, no column) and correspondence-checked WITH wrapping only; WITHOUT wrapping "
                 "and horizontal_scroll > 0 the skip loop of copy_line explodes the line and counts the escape characters "
                 "(width and `skipped`), the cursor cell is then not drawn: KNOWN finding (own class), not modelled, such "
                 "cases are not generated; a TabsProcessor / Show*WhiteSpace processor AFTER such a BeforeInput explodes the "
                 "escape fragments and counts their characters in its position map (observed, not modelled, not generated)",
                 "a zero-width character under the cursor has no cell of its own (KNOWN finding, own class; "
                 "zero_width_under_cursor_not_recorded); without wrapping its position is still recorded inside the window",
                 "mouse: the window installs its handler only for x < xpos + width - (left + right margins): the "
                 "rightmost columns of the body next to a LEFT margin get no handler (KNOWN finding, "
                 "proposed_fixes/C11-mouse-region.diff, probed flag); click theorems are for one-column cells "
                 "(with combining characters several (row, col) share a cell); SCROLL_UP / SCROLL_DOWN, MOUSE_UP / "
                 "double click / drag selection not modelled",
                 "NumberedMargin: rows proved for vertical_scroll_2 = 0 (with an over-tall cursor line the margin shows "
                 "that line's number on the first row: correspondence only); relative numbers, tildes not modelled; "
                 "ScrollbarMargin / PromptMargin / ConditionalMargin on either side: only their WIDTHS are modelled (the "
                 "width bookkeeping of _write_to_screen_at_index: body = window - all margins, used for create_content, "
                 "_scroll and _copy_body alike; theorem render_body_geometry), not what they draw",
                 "processors not modelled: HighlightSelection / DisplayMultipleCursors with an active selection / "
                 "multiple cursors (they append one blank), HighlightSearch with a search text (restyle only), "
                 "AppendAutoSuggestion (an AfterInput whose text depends on the cursor), ReverseSearchProcessor, ShowArg",
                 "align != LEFT, dont_extend_width/height, ignore_content_width/height (preferred sizes only), windows "
                 "of width/height 0 (nothing is rendered), content with zero lines (a BufferControl always has one), "
                 "menus, floats not modelled"]


# ------------------------------------------------------------------ real code
def make_processor(p):
    k = p[0]
    if k == "T":
        return TabsProcessor(tabstop=p[1], char1=p[2], char2=p[3])
    if k == "B":
        return BeforeInput(p[1])
    if k == "Z":  # ["Z", mode, style, [[zw, text], ...]]: BeforeInput whose prompt has [ZeroWidthEscape] fragments
        mode, style, frs = p[1], p[2], p[3]
        if mode == "ansi":  # through ANSI: \001 .. \002 marks a zero-width escape
            from prompt_toolkit.formatted_text import ANSI
            text = ANSI("".join(("\001" + t + "\002") if zw else t for zw, t in frs))
        else:               # directly as fragments
            text = [("[ZeroWidthEscape]" if zw else "", t) for zw, t in frs]
        return BeforeInput(text, style=style)
    if k == "A":
        return AfterInput(p[1])
    if k == "P":
        return PasswordProcessor(char=p[1])
    if k == "L":
        return ShowLeadingWhiteSpaceProcessor(get_char=lambda c=p[1]: c)
    if k == "R":
        return ShowTrailingWhiteSpaceProcessor(get_char=lambda c=p[1]: c)
    if k == "I":  # processors that only restyle
        return [DummyProcessor, HighlightMatchingBracketProcessor, HighlightSearchProcessor,
                HighlightSelectionProcessor][p[1] % 4]()
    if k == "C":  # ["C", kind, enabled, inner]
        inner = make_processor(p[3])
        if p[1] == "cond":
            return ConditionalProcessor(inner, Condition(lambda b=p[2]: b))
        return DynamicProcessor(lambda b=p[2], inner=inner: inner if b else None)
    if k == "M":  # nested merge_processors
        return merge_processors(make_processors(p[1]))
    raise ValueError(p)


def make_processors(procs):
    return [make_processor(p) for p in procs]


def make_margin(m):
    """["N"] | ["S"] | ["P", text] | ["C", enabled, inner]"""
    if m[0] == "N":
        return NumberedMargin()
    if m[0] == "S":
        return ScrollbarMargin()
    if m[0] == "P":
        return PromptMargin(get_prompt=lambda t=m[1]: [("", t)])
    if m[0] == "C":
        return ConditionalMargin(make_margin(m[2]), filter=Condition(lambda b=m[1]: b))
    raise ValueError(m)


def margin_width(m, nlines):
    """width of a margin spec (used only to SIZE the generated windows so that the body is >= 1 wide)"""
    if m[0] == "N":
        return max(3, len(str(nlines)) + 1)
    if m[0] == "S":
        return 1
    if m[0] == "P":
        return get_cwidth(m[1])
    return margin_width(m[2], nlines) if m[1] else 0


def enc_margin(m):
    if m[0] in "NS":
        return [m[0]]
    if m[0] == "P":
        return ["P", enc_str(m[1])]
    return ["C", "1" if m[1] else "0"] + enc_margin(m[2])


def enc_margins(ms):
    return " ".join([str(len(ms))] + [t for m in ms for t in enc_margin(m)])


_APP = None


def shared_app():
    """one Application per process (building one loads all key bindings: ~6 ms); each Rig installs
    its own Layout, so the window under test is the focused one"""
    global _APP
    if _APP is None:
        _APP = Application(layout=Layout(Window()), input=DummyInput(), output=DummyOutput())
    return _APP


class Rig:
    """One real Window over one real BufferControl, rendered step by step."""

    def __init__(self, case):
        self.case = case
        self.cur = {"wrap": True}
        self.buf = Buffer()
        pre = case.get("prefix")
        glp = None
        if pre is not None:
            def glp(lineno, wrap_count, pre=pre):
                if wrap_count > 0:
                    return pre[2]
                return pre[0] if lineno == 0 else pre[1]
        so = case.get("so", [0, 0, 0, 0])
        self.control = BufferControl(self.buf, input_processors=make_processors(case.get("procs", [])))
        # record what the window's mouse handler passes on to the control
        self.clicked = None
        inner = self.control.mouse_handler

        def recording_mouse_handler(ev, inner=inner):
            self.clicked = (ev.position.y, ev.position.x)
            return inner(ev)

        self.control.mouse_handler = recording_mouse_handler
        cbs = case.get("cbs") or [False, False]
        self.win = Window(
            self.control,
            wrap_lines=Condition(lambda: self.cur["wrap"]),
            left_margins=([NumberedMargin()] if case.get("margin") else []) +
            [make_margin(m) for m in case.get("lefts", [])],
            right_margins=[make_margin(m) for m in case.get("rights", [])],
            scroll_offsets=ScrollOffsets(top=so[0], bottom=so[1], left=so[2], right=so[3]),
            allow_scroll_beyond_bottom=bool(case.get("beyond", False)),
            get_line_prefix=glp,
            get_vertical_scroll=(lambda w: self.cur["cb"][0]) if cbs[0] else None,
            get_horizontal_scroll=(lambda w: self.cur["cb"][1]) if cbs[1] else None,
        )
        self.mh = None
        self.app = shared_app()
        self.app.layout = Layout(self.win)
        self.app.render_counter += 1
        init = case.get("init")
        if init:
            self.win.vertical_scroll, self.win.horizontal_scroll, self.win.vertical_scroll_2 = init

    def render(self, step):
        """returns (screen, write_position)"""
        self.cur = step
        self.buf.set_document(Document(step["text"], step["cur"]), bypass_readonly=True)
        self.app.render_counter += 1
        sc = Screen()
        wp = WritePosition(self.case.get("xpos", 0), self.case.get("ypos", 0), step["w"], step["h"])
        self.mh = MouseHandlers()
        self.win.write_to_screen(sc, self.mh, wp, "", False, None)
        return sc, wp

    def handler_at(self, y, x):
        """the mouse handler installed for the absolute screen cell (y, x), or None"""
        row = self.mh.mouse_handlers.get(y)
        h = row.get(x) if row is not None else None
        return h if h is not None and h.__name__ != "dummy_callback" else None

    def click(self, y, x):
        """MOUSE_DOWN at the absolute screen cell (y, x): ((row, col) passed to the control, new cursor index),
        or None when no handler of this window is installed there"""
        h = self.handler_at(y, x)
        if h is None:
            return None
        self.clicked = None
        h(MouseEvent(position=Point(x=x, y=y), event_type=MouseEventType.MOUSE_DOWN,
                     button=MouseButton.LEFT, modifiers=frozenset()))
        return self.clicked, self.buf.cursor_position


def run_case(case, fn, flat=False):
    """run fn(rig, step, screen, wp) after every render of the case, inside a running loop"""
    out = []

    async def go():
        rig = Rig(case)
        with set_app(rig.app):
            for step in case["ops"]:
                sc, wp = rig.render(step)
                res = fn(rig, step, sc, wp)
                if isinstance(res, list) and flat:
                    out.extend(res)
                else:
                    out.append(res)

    asyncio.run(go())
    return out


def enc_row(cells):
    return "r:" + ",".join(".".join(str(ord(c)) for c in cell) for cell in cells)


def observe(rig, step, sc, wp):
    win = rig.win
    ri = win.render_info
    uc = ri.ui_content
    xoff, yoff = ri._x_offset, ri._y_offset
    cw = ri.window_width
    cp = sc.cursor_positions.get(win)
    toks = [str(win.vertical_scroll), str(win.horizontal_scroll), str(win.vertical_scroll_2),
            str(uc.cursor_position.y), str(uc.cursor_position.x), str(cw), str(xoff)]
    toks.append("N N" if cp is None else f"{cp.y} {cp.x}")
    vl = ri.visible_line_to_row_col
    toks.append("vl " + " ".join([str(len(vl))] + [f"{y} {r} {c}" for y, (r, c) in vl.items()]))
    rc = ri._rowcol_to_yx
    toks.append("rc " + " ".join([str(len(rc))] + [f"{r} {c} {y} {x}" for (r, c), (y, x) in rc.items()]))
    # position maps of the cursor line: source_to_display(0..len), display_to_source(0..displaylen+1)
    doc = rig.buf.document
    pl = rig.control._last_get_processed_line(doc.cursor_position_row)
    n = len(doc.current_line)
    s2d = []
    for i in range(n + 1):
        try:
            s2d.append(str(pl.source_to_display(i)))
        except KeyError:
            s2d.append("E")
    m = sum(len(t) for st_, t, *_ in pl.fragments if "[ZeroWidthEscape]" not in st_)  # drawn characters
    d2s = [str(pl.display_to_source(j)) for j in range(m + 2)]
    toks.append("pm " + " ".join([str(len(s2d))] + s2d) + " dm " + " ".join([str(len(d2s))] + d2s))
    # columns of the first window row that got this window's mouse handler
    cols = [x for x in range(wp.xpos - 2, wp.xpos + wp.width + 2) if rig.handler_at(wp.ypos, x) is not None]
    toks.append("mr " + (f"{min(cols)} {max(cols) + 1}" if cols else "E"))
    rows = []
    for y in range(wp.height):
        row = sc.data_buffer[yoff + y]
        rows.append(enc_row([row[xoff + x].char for x in range(max(cw, 0))]))
    toks.append(" ".join(rows))
    # the cells of the numbered margin (the first left margin), row by row
    mw = win._get_margin_width(win.left_margins[0]) if rig.case.get("margin") else 0
    if mw > 0:
        for y in range(wp.height):
            row = sc.data_buffer[yoff + y]
            toks.append("m:" + ",".join(".".join(str(ord(c)) for c in row[wp.xpos + x].char) for x in range(mw)))
    lines = [" ".join(toks)]
    for (y, x) in step_clicks(step, wp):
        r = rig.click(y, x)
        lines.append("none" if r is None else f"{r[0][0]} {r[0][1]} {r[1]}")
    return lines


def step_clicks(step, wp):
    """absolute (y, x) of the clicks of a step; "all" = every cell of the window rectangle plus one
    column / row around it"""
    cl = step.get("clicks")
    if not cl:
        return []
    if cl == "all":
        return [(wp.ypos + y, wp.xpos + x) for y in range(-1, wp.height + 1) for x in range(-1, wp.width + 1)
                if wp.ypos + y >= 0 and wp.xpos + x >= 0]
    return [(wp.ypos + y, wp.xpos + x) for y, x in cl if wp.ypos + y >= 0 and wp.xpos + x >= 0]


def impl_lines(case):
    out = ["ok"]
    out += run_case(case, observe, flat=True)
    return out


# ------------------------------------------------------------------ model side
def enc_proc(p):
    k = p[0]
    if k == "T":
        return ["T", str(p[1]), str(ord(p[2])), str(ord(p[3]))]
    if k == "Z":
        return ["Z", str(len(p[3]))] + [t for zw, txt in p[3] for t in ("1" if zw else "0", enc_str(txt))]
    if k in "BA":
        return [k, enc_str(p[1])]
    if k in "PLR":
        return [k, str(ord(p[1]))]
    if k == "I":
        return ["I"]
    if k == "C":
        return ["C", "1" if p[2] else "0"] + enc_proc(p[3])
    if k == "M":
        return ["M", str(len(p[1]))] + [t for q in p[1] for t in enc_proc(q)]
    raise ValueError(p)


def enc_procs(procs):
    return " ".join([str(len(procs))] + [t for p in procs for t in enc_proc(p)])


def model_lines(case):
    init = case.get("init") or [0, 0, 0]
    so = case.get("so", [0, 0, 0, 0])
    pre = case.get("prefix")
    cfg = " ".join([
        str(case.get("xpos", 0)), str(case.get("ypos", 0)),
        " ".join(str(x) for x in so), "1" if case.get("beyond") else "0",
        "1" if case.get("margin") else "0",
        ("1 " + " ".join(enc_str(p) for p in pre)) if pre is not None else "0 s: s: s:"])
    procs = enc_procs(case.get("procs", []))
    margins = enc_margins(case.get("lefts", [])) + " " + enc_margins(case.get("rights", []))
    cbs = case.get("cbs") or [False, False]
    out = [f"init {init[0]} {init[1]} {init[2]}"]
    for st in case["ops"]:
        cb = st.get("cb") or [None, None]
        cbt = " ".join(str(cb[i]) if cbs[i] else "N" for i in (0, 1))
        out.append(f"render {st['w']} {st['h']} {'1' if st['wrap'] else '0'} {cfg} {cbt} {margins} {procs} "
                   f"{enc_str(st['text'])} {st['cur']}")
        wp = WritePosition(case.get("xpos", 0), case.get("ypos", 0), st["w"], st["h"])
        for (y, x) in step_clicks(st, wp):
            out.append(f"click {y} {x}")
    return out


# ------------------------------------------------------------------ oracle
def flat_procs(procs):
    """the processors that are actually applied, in order (enabled conditional / dynamic ones unwrapped,
    nested merges spliced in)"""
    out = []
    for p in procs:
        if p[0] == "C":
            if p[2]:
                out += flat_procs([p[3]])
        elif p[0] == "M":
            out += flat_procs(p[1])
        else:
            out.append(p)
    return out


def expected_char(case, text, cur):
    """what the cell under the cursor must show: the character under the cursor, or the blank
    after the line end -- seen through the configured processors applied in order (a tab becomes
    the first tab cell, PasswordProcessor masks what is there, AfterInput text starts where the
    last line ends, a blank may be shown by the Show*WhiteSpace character); control characters are
    shown through Char.display_mappings."""
    ch = text[cur] if cur < len(text) and text[cur] != "\n" else None
    last_line = "\n" not in text[cur:]
    alts = set()
    for p in flat_procs(case.get("procs", [])):
        if p[0] == "T" and ch == "\t":
            ch = p[2]
        elif p[0] == "P" and ch is not None:
            ch = p[1]
        elif p[0] == "A" and ch is None and last_line and p[1]:
            ch = p[1][0]
        elif p[0] in "LR" and ch == " ":
            alts.add(p[1])
    if ch is None:
        ch = " "
    return {Char.display_mappings.get(c, c) for c in {ch} | alts}


def zero_width_under_cursor(text, cur):
    under = text[cur] if cur < len(text) else " "
    return under not in "\n\t" and get_cwidth(under) == 0 and under not in Char.display_mappings


def drawn_width(ch):
    """columns the screen cell of `ch` takes (Char.width)"""
    return get_cwidth(Char.display_mappings.get(ch, ch))


def irregular_lines(rig, step):
    """The region EXCLUDED by the theorem wrap_cursor_in_window_partial, evaluated on the real objects:
    content lines between the (new) top of the window and the cursor line that contain a cell that is
    not one column wide AND do not fit on one row together with their prefix (they wrap).
    Returns the list of (lineno, has_control_character)."""
    win = rig.win
    ri = win.render_info
    uc = ri.ui_content
    out = []
    for l in range(max(0, win.vertical_scroll), uc.cursor_position.y + 1):
        line = "".join(t for _, t, *_ in uc.get_line(l))
        ws = [drawn_width(ch) for ch in line]
        if all(w == 1 for w in ws):
            continue
        pw = 0
        if win.get_line_prefix is not None:
            pw = sum(drawn_width(ch) for ch in win.get_line_prefix(l, 0))
        if pw + sum(ws) <= ri.window_width:
            continue
        out.append((l, any((ord(ch) < 32 or 127 <= ord(ch) < 160) for ch in line)))
    return out


def sig_class(case, step, text, cur, rig=None):
    """condition class of a violation.  The two KNOWN classes ("wide or zero-width characters",
    "control characters shown as ^X") are reported only inside the region the theorems exclude: wrapping
    on and a displayed line at or above the cursor that has a non-one-column cell and wraps.  Everything
    else (no wrapping with any character widths; wrapping with regular lines) is inside the proved region
    and gets a class that no known finding matches."""
    if zero_width_under_cursor(text, cur):
        # a combining character has no cell of its own (it is merged into the previous cell)
        return "zero-width character under the cursor"
    if has_zw(case) and not step["wrap"] and rig is not None and rig.win.horizontal_scroll > 0:
        return "zero-width-escape fragment in the line and horizontal scroll"
    wide = any(get_cwidth(ch) != 1 for ch in text if ch not in "\n\t") or \
        any(get_cwidth(ch) != 1 for p in (case.get("prefix") or []) for ch in p) or \
        any(get_cwidth(ch) != 1 for p in flat_procs(case.get("procs", [])) for a in p[1:] if isinstance(a, str)
            for ch in a)
    ctrl = any((ord(ch) < 32 or 127 <= ord(ch) < 160) and ch != "\n" for ch in text)
    has_tabs_proc = any(p[0] == "T" for p in flat_procs(case.get("procs", [])))
    ctrl = ctrl and not (has_tabs_proc and all(ch == "\t" or not (ord(ch) < 32 or 127 <= ord(ch) < 160)
                                               for ch in text if ch != "\n"))
    if not (wide or ctrl):
        return "width-1 characters"
    if step["wrap"] and rig is not None:
        irr = irregular_lines(rig, step)
        if irr:
            return "control characters shown as ^X" if any(c for _, c in irr) else "wide or zero-width characters"
    return "wide / zero-width / control characters inside the proved region"


def check_render(rig, step, sc, wp):
    case = rig.case
    v = []
    win = rig.win
    ri = win.render_info
    text, cur = step["text"], step["cur"]
    cls = sig_class(case, step, text, cur, rig)
    mode = "wrap" if step["wrap"] else "nowrap"

    def bad(site, cond, msg):
        v.append({"signature": f"{site} | {cond}",
                  "msg": f"{msg}: text={text!r} cur={cur} w={step['w']} h={step['h']} wrap={step['wrap']} "
                         f"vs={win.vertical_scroll} hs={win.horizontal_scroll} vs2={win.vertical_scroll_2} "
                         f"cfg={ {k: case.get(k) for k in ('so', 'margin', 'lefts', 'rights', 'prefix', 'procs', 'beyond', 'init')} }"})

    xoff, yoff, cw, h = ri._x_offset, ri._y_offset, ri.window_width, wp.height
    cp = sc.cursor_positions.get(win)
    doc = rig.buf.document
    row, col = doc.cursor_position_row, doc.cursor_position_col
    if cp is None:
        bad("Window.write_to_screen", f"{mode}, {cls}: no cursor position set", "focused window set no cursor")
        return v
    # (1) the cursor is reported where the render info says the cursor cell was drawn
    uc = ri.ui_content
    key = (uc.cursor_position.y, uc.cursor_position.x)
    if key not in ri._rowcol_to_yx:
        bad("Window._copy_body", f"{mode}, {cls}: cursor cell not drawn (fallback 0,0)",
            "the cell addressed by the cursor was not drawn inside the window; cursor reported at the fallback")
        return v
    y, x = ri._rowcol_to_yx[key]
    if (cp.y, cp.x) != (y, x):
        bad("Window._copy_body", f"{mode}, {cls}: cursor differs from render info", "cursor_positions != rowcol_to_yx")
    # (2) inside the window body
    if not (xoff <= cp.x < xoff + cw and yoff <= cp.y < yoff + h):
        bad("Window._copy_body", f"{mode}, {cls}: cursor outside window", f"cursor {cp} outside the window body")
        return v
    # (3) on the character it addresses
    cell = sc.data_buffer[cp.y][cp.x].char
    exp = expected_char(case, text, cur)
    if zero_width_under_cursor(text, cur):
        pass  # a zero-width (combining) character has no cell of its own: not asserted
    elif cell not in exp and not any(cell.startswith(e) and all(drawn_width(c) == 0 for c in cell[len(e):])
                                     for e in exp):
        # (a cell may show its character followed by combining characters merged into it)
        bad("Window._copy_body", f"{mode}, {cls}: cursor not on its character",
            f"cell under the cursor shows {cell!r}, expected one of {sorted(exp)}")
    # (3b) mouse: MOUSE_DOWN on the cell where the cursor was drawn is passed on as the cursor's content
    #      position and leaves the cursor index where it is (inverse of the placement)
    if not zero_width_under_cursor(text, cur):
        if rig.handler_at(cp.y, cp.x) is None:
            bad("Window._write_to_screen_at_index",
                "mouse region: body cell without handler" + (" (left margin)" if case.get("margin") else ""),
                f"no mouse handler installed for the cursor cell {cp} although it is inside the window body "
                f"[{xoff}, {xoff + cw})")
        else:
            got = rig.click(cp.y, cp.x)
            if got[0] != key:
                bad("Window.mouse_handler", f"{mode}, {cls}: click on the cursor cell maps to another position",
                    f"click on {cp} passed on as (row, col)={got[0]}, the cursor is at {key}")
            elif got[1] != cur:
                bad("BufferControl.mouse_handler", f"{cls}: click on the cursor cell moves the cursor",
                    f"click on {cp} -> (row, col)={got[0]} -> index {got[1]}, expected {cur}")
    # (4) the screen row of the cursor belongs to the cursor's document line
    vl = ri.visible_line_to_row_col
    if vl.get(cp.y - yoff, (None, None))[0] != row:
        bad("Window._copy_body", f"{mode}, {cls}: cursor row maps to another line",
            f"visible_line_to_row_col[{cp.y - yoff}]={vl.get(cp.y - yoff)} but the cursor is on line {row}")
    # (5) rows shown are consecutive document lines in order
    shown = [vl[k][0] for k in sorted(vl) if 0 <= k < h]
    keys = [k for k in sorted(vl) if 0 <= k < h]
    if keys != list(range(len(keys))):
        bad("Window._copy_body", f"{mode}, {cls}: displayed rows not contiguous", f"screen rows {keys}")
    if shown:
        if shown[0] != win.vertical_scroll:
            bad("Window._copy_body", f"{mode}, {cls}: first row is not vertical_scroll", f"rows {shown}")
        for a, b in zip(shown, shown[1:]):
            if b - a not in ((0, 1) if step["wrap"] else (1,)):
                bad("Window._copy_body", f"{mode}, {cls}: rows not consecutive", f"rows {shown}")
                break
    # (5b) numbered margin: margin row y shows lineno + 1 on the first screen row of a document line and
    #      nothing on wrapped continuation rows / below the content (stated for vertical_scroll_2 == 0)
    mw = win._get_margin_width(win.left_margins[0]) if case.get("margin") else 0
    if case.get("margin") and mw > 0 and win.vertical_scroll_2 == 0:
        for yy in range(h):
            shown = "".join(sc.data_buffer[yoff + yy][wp.xpos + x].char for x in range(mw)).strip()
            ent = vl.get(yy)
            want = ""
            if ent is not None and (yy == 0 or vl.get(yy - 1, (None, None))[0] != ent[0]):
                want = str(ent[0] + 1)
            if shown != want:
                bad("NumberedMargin.create_margin", f"{mode}: margin row does not show the document row displayed",
                    f"margin row {yy} shows {shown!r}, screen row {yy} shows document line {ent}, expected {want!r}")
                break
    # (6) column maps of the cursor line
    pl = rig.control._last_get_processed_line(row)
    line = doc.lines[row]
    prev = None
    for i in range(len(line) + 1):
        try:
            d = pl.source_to_display(i)
            b = pl.display_to_source(d)
        except Exception as e:  # noqa
            bad("processors", f"position map raises {type(e).__name__}", f"source_to_display({i})")
            break
        if b != i:
            bad("processors", "display_to_source(source_to_display(i)) != i", f"i={i} d={d} back={b}")
            break
        if prev is not None and d <= prev:
            bad("processors", "source_to_display not strictly increasing", f"i={i} d={d} prev={prev}")
            break
        prev = d
    return v


def oracle(case):
    res = run_case(case, check_render)
    seen, out = set(), []
    for vs in res:
        for x in vs:
            if x["signature"] not in seen:
                seen.add(x["signature"])
                out.append(x)
    return out

# ------------------------------------------------------------------ generators
ALPHA = ["a", "\n", "\t"]
CFGS = [
    {},
    {"so": [1, 1, 1, 1]},
    {"prefix": ["> ", ". ", ". "]},
    {"so": [2, 0, 0, 2], "beyond": True, "init": [3, 5, 2]},
    {"prefix": [">>", "", "-"], "so": [0, 1, 0, 1]},
    {"procs": [["T", 4, "|", "."]]},
    {"procs": [["B", "> "], ["T", 3, "|", "-"]], "so": [1, 0, 1, 0]},
    {"margin": True, "xpos": 2, "ypos": 1},
    {"procs": [["T", 2, "|", "-"], ["B", "$"]], "so": [0, 1, 1, 0], "prefix": ["", "", "+"]},
    {"procs": [["P", "*"], ["A", "<<"]], "init": [1, 1, 1]},
    {"so": [3, 3, 3, 3], "init": [7, 9, 4], "margin": True, "prefix": [":", ":", ":"]},
    {"cbs": [True, True], "cbval": [2, 3], "so": [0, 1, 1, 0]},
    {"procs": [["R", "~"], ["L", "_"], ["I", 1], ["C", "cond", True, ["B", ">"]], ["C", "dyn", False, ["P", "*"]]]},
    {"procs": [["M", [["B", "$ "], ["M", [["T", 3, "|", "."], ["I", 2]]]]], ["C", "dyn", True, ["A", "<"]]],
     "so": [1, 0, 0, 1]},
]
# right (and further left) margins: ScrollbarMargin alone, Numbered + Scrollbar, two right margins, PromptMargin /
# ConditionalMargin on either side -- the body is the window minus ALL of them
CFGS += [
    {"rights": [["S"]]},
    {"margin": True, "rights": [["S"]], "so": [0, 1, 0, 1], "xpos": 1},
    {"rights": [["S"], ["C", True, ["P", "ab"]]], "so": [1, 0, 1, 1], "init": [2, 4, 1]},
    {"lefts": [["P", ">"], ["C", False, ["S"]]], "rights": [["C", False, ["S"]], ["S"]], "prefix": ["", "", "-"]},
]
# BeforeInput prompts with [ZeroWidthEscape] fragments (shell-integration marks): before / between / after the
# visible characters, through ANSI(\001..\002) and directly as fragments, with and without style= on BeforeInput
ZW_A, ZW_B = "\x1b]133;A\x07", "\x1b]133;B\x07"
CFGS += [
    {"procs": [["Z", "ansi", "class:prompt", [[True, ZW_A], [False, "$"], [True, ZW_B], [False, " "], [True, "zz"]]]]},
    {"procs": [["Z", "frag", "", [[True, ZW_A], [False, "> "]]], ["I", 1]], "so": [0, 1, 1, 1]},
    {"procs": [["Z", "frag", "class:x", [[False, ">"], [True, ZW_B]]], ["Z", "ansi", "", [[False, "a"], [True, "q"], [False, "b"]]]],
     "init": [1, 3, 1], "margin": True},
]
# alphabet of the configurations with white-space processors
ALPHA_SP = ["a", "\n", " "]
# configurations of the exhaustive mouse family (every cell of the window is clicked)
MOUSE_CFGS = [
    {},
    {"margin": True, "rights": [["S"], ["P", "ab"]], "xpos": 1, "ypos": 1},
    {"margin": True, "xpos": 2, "ypos": 1, "so": [1, 0, 0, 1]},
    {"procs": [["B", "> "], ["T", 3, "|", "-"]], "prefix": ["", ".", "+"]},
    {"procs": [["T", 2, "|", "-"], ["A", "<"]], "init": [1, 2, 1], "xpos": 1},
]


def extra_width(cfg, nlines=1):
    pre = cfg.get("prefix")
    pw = max(get_cwidth(p) for p in pre) if pre else 0
    mw = max(3, len(str(nlines)) + 1) if cfg.get("margin") else 0
    mw += sum(margin_width(m, nlines) for m in cfg.get("lefts", []) + cfg.get("rights", []))
    return pw + mw


def has_zw(cfg):
    """a BeforeInput prompt with [ZeroWidthEscape] fragments is configured"""
    return any(p[0] == "Z" for p in flat_procs(cfg.get("procs", [])))


def sweep_case(cfg, text, w, h, wrap, clicks=False):
    n = len(text)
    tw = w + extra_width(cfg, text.count("\n") + 1)
    curs = list(range(n + 1)) + [0, n, n // 2]
    ops = [{"text": text, "cur": c, "w": tw, "h": h, "wrap": wrap} for c in curs]
    if cfg.get("cbval"):
        for st in ops:
            st["cb"] = cfg["cbval"]
    if clicks:  # click every cell of the window (and one around it) in the last three states
        for st in ops[-3:]:
            st["clicks"] = "all"
    return dict({k: v for k, v in cfg.items() if k != "cbval"}, ops=ops)


def boundary_text(rng, w, alpha):
    lines = []
    for _ in range(rng.choice([1, 1, 2, 3, 5, 12])):
        k = rng.choice([0, 1, 1, 2, 3])
        ln = max(0, k * w + rng.choice([-1, 0, 0, 1]))
        if rng.random() < 0.2:
            ln = rng.randrange(0, 30)
        lines.append("".join(rng.choice(alpha) for _ in range(ln)))
    return "\n".join(lines)


RAND_CFG_PROCS = [[["Z", "ansi", "class:prompt", [[True, "\x1b]133;A\x07"], [False, "$ "], [True, "\x1b]133;B\x07"]]]],
                  [["Z", "frag", "bold", [[False, ">>"], [True, "escape"], [False, " "]]], ["A", "<"]],
                  [["B", "ab"], ["Z", "frag", "", [[True, "x"], [False, "y"], [True, "z"]]]],
                  [["R", "~"], ["L", "_"], ["B", "> "]], [["L", "."], ["C", "cond", True, ["T", 4, "|", "-"]], ["I", 3]],
                  [["M", [["B", "ab"], ["T", 2, ">", " "]]], ["C", "dyn", False, ["B", "zzz"]], ["M", []], ["M", [["P", "*"]]]],
                  [["C", "cond", False, ["T", 4, "|", "."]], ["I", 0], ["C", "dyn", True, ["M", [["B", "> "], ["L", "_"]]]]],
                  [], [], [["T", 4, "|", "."]], [["T", 1, "|", "."]], [["B", ">> "]], [["B", "> "], ["T", 3, "|", "-"]],
                  [["T", 8, ">", " "], ["B", "$"]], [["A", "<<"]], [["P", "*"]], [["B", "a"], ["B", "bc"], ["T", 5, "|", "."]],
                  [["A", "!"], ["T", 4, "|", "."], ["P", "#"]]]
WIDE_PREFIX = [["世", "> ", "."], ["丁 ", "丁 ", "丁 "]]
WIDE_PROCS = [[["B", "世"]], [["A", "丁́"]], [["B", "é"], ["T", 4, "世", "."]]]
WIDE_ALPHA = ["a", "世", "́", "\x01", "\n"]
UNSCANNED_ALPHA = ["a", "\u3105", "\uac00", "\U0001f600", "\u0300", "\u200b", "\U000e0100"]
WIDE_CFGS = [{}, {"so": [1, 1, 1, 1], "init": [2, 3, 1]}, {"prefix": ["世", ">", "."], "so": [0, 0, 1, 0]}]
RAND_PREFIX = [None, None, None, ["> ", ". ", ". "], ["", "", "-"], [">>", "", ""], [">", "..", "+"], ["abc", "abc", "abc"]]


def random_case(rng, alpha, tab_always=False, wide_cfg=False):
    cfg = {"so": [rng.choice([0, 0, 1, 2, 3, 9]) for _ in range(4)],
           "init": rng.choice([None, None, [rng.randrange(15), rng.randrange(15), rng.randrange(6)]]),
           "prefix": rng.choice(RAND_PREFIX + (WIDE_PREFIX if wide_cfg else [])), "margin": rng.random() < 0.3,
           "procs": rng.choice(RAND_CFG_PROCS + (WIDE_PROCS if wide_cfg else [])), "beyond": rng.random() < 0.3,
           "xpos": rng.choice([0, 0, 3]), "ypos": rng.choice([0, 0, 2])}
    if rng.random() < 0.3:
        cfg["rights"] = rng.choice([[["S"]], [["S"], ["S"]], [["P", "ab"], ["S"]], [["C", False, ["S"]], ["P", "x"]],
                                    [["C", True, ["N"]]]])
    if rng.random() < 0.1:
        cfg["lefts"] = rng.choice([[["P", "> "]], [["S"]], [["C", True, ["P", "ab"]], ["C", False, ["N"]]]])
    if rng.random() < 0.2:
        cfg["cbs"] = rng.choice([[True, False], [False, True], [True, True]])
    if tab_always and has_zw(cfg):
        # a TabsProcessor after a prompt with [ZeroWidthEscape] fragments explodes them and counts the escape
        # characters in its position map (observed on the real code; outside the model): not generated
        cfg["procs"] = [["T", 4, "|", "."]]
    if tab_always and not any(p[0] == "T" for p in flat_procs(cfg["procs"])):
        cfg["procs"] = cfg["procs"] + [["T", rng.choice([1, 2, 4, 8]), "|", "."]]
    w = rng.randrange(1, 10)
    h = rng.randrange(1, 6)
    wrap = rng.random() < 0.5
    text = boundary_text(rng, w, alpha)
    steps = []
    for _ in range(rng.randrange(1, 9)):
        r = rng.random()
        if r < 0.35:
            text = boundary_text(rng, w, alpha)
        elif r < 0.45:
            w = rng.randrange(1, 10)
        elif r < 0.55:
            h = rng.randrange(1, 6)
        elif r < 0.65:
            wrap = not wrap
        n = len(text)
        cur = rng.choice([0, n, rng.randrange(n + 1), rng.randrange(n + 1)])
        if rng.random() < 0.3 and w > 0 and n:
            # cursor at an exact multiple of the width inside some line
            starts = [0] + [i + 1 for i, ch in enumerate(text) if ch == "\n"]
            s0 = rng.choice(starts)
            cur = min(n, s0 + w * rng.randrange(0, 4))
            if "\n" in text[s0:cur]:
                cur = s0
        st = {"text": text, "cur": cur, "w": w + extra_width(cfg, text.count("\n") + 1), "h": h, "wrap": wrap}
        if cfg.get("cbs"):
            st["cb"] = [rng.choice([-2, 0, 1, 3, 14]), rng.choice([-2, 0, 1, 3, 14])]
        if rng.random() < 0.3:
            st["clicks"] = [[rng.randrange(-1, h + 1), rng.randrange(-1, st["w"] + 1)] for _ in range(3)]
        if has_zw(cfg):
            st["wrap"] = True  # KNOWN finding: horizontal scroll counts the escape characters (see PARTIAL_SCOPE)
        steps.append(st)
    cfg["ops"] = steps
    return cfg


def cases(tier, rng):
    quick = tier == "quick"
    # exhaustive small scope
    for ci, cfg in enumerate(CFGS):
        fp = flat_procs(cfg.get("procs", []))
        has_tabs = any(p[0] == "T" for p in fp)
        has_ws = any(p[0] in "LR" for p in fp)
        alpha = (ALPHA if has_tabs else ALPHA[:2]) + ([" "] if has_ws else [])
        if quick:
            maxlen = 3 if (has_tabs or has_ws) else (5 if ci == 0 else 4)
        else:
            maxlen = 4 if has_tabs else (5 if has_ws else (7 if ci in (0, 1, 2) else 6))
        for n in range(maxlen + 1):
            for tup in itertools.product(alpha, repeat=n):
                text = "".join(tup)
                for w in range(1, 5):
                    for h in range(1, 4):
                        for wrap in (True, False):
                            if has_zw(cfg) and not wrap:
                                continue  # KNOWN finding: horizontal scroll counts the escape characters
                            yield sweep_case(cfg, text, w, h, wrap)
    # exhaustive mouse family: every cell of the window rectangle clicked (width-1 characters)
    for cfg in MOUSE_CFGS:
        has_tabs = any(p[0] == "T" for p in flat_procs(cfg.get("procs", [])))
        alpha = ALPHA if has_tabs else ALPHA[:2]
        for n in range((3 if quick else 4) + 1):
            for tup in itertools.product(alpha, repeat=n):
                text = "".join(tup)
                for w in range(1, 5):
                    for h in (1, 2):
                        for wrap in (True, False):
                            c = sweep_case(cfg, text, w, h, wrap, clicks=True)
                            c["sub"] = "mouse-exhaustive"
                            yield c
    # exhaustive small scope, ANY cell widths: double-width, combining (zero-width), raw control character
    for cfg in WIDE_CFGS:
        for n in range((3 if quick else 4) + 1):
            for tup in itertools.product(WIDE_ALPHA, repeat=n):
                text = "".join(tup)
                for w in range(1, 4 if quick else 5):
                    for h in (1, 2):
                        for wrap in (True, False):
                            c = sweep_case(cfg, text, w, h, wrap)
                            c["sub"] = "wide-exhaustive"
                            yield c
    # exhaustive, NO wrapping, characters OUTSIDE the round-1 scan ranges of the width table (the table now
    # covers all code points): Bopomofo / Hangul / emoji (2 columns), combining grave, zero width space,
    # plane-14 variation selector (0 columns)
    for cfg in WIDE_CFGS:
        for n in range((2 if quick else 3) + 1):
            for tup in itertools.product(UNSCANNED_ALPHA, repeat=n):
                text = "".join(tup)
                for w in range(1, 4):
                    for h in (1, 2):
                        c = sweep_case(cfg, text, w, h, False)
                        c["sub"] = "wide-exhaustive-nowrap-all-planes"
                        yield c
    # random histories: width-1 characters (tabs always through a TabsProcessor)
    for _ in range(1200 if quick else 9000):
        yield random_case(rng, ["a", "b", "c", " ", "\t"], tab_always=True)
    # wide / zero-width sub-domain
    for _ in range(300 if quick else 2500):
        c = random_case(rng, ["a", "b", " ", "世", "丁", "ｗ", "́", "é", "\t", "\u3105", "\uac00", "\U0001f600",
                              "\u200b", "\U000e0100"], tab_always=True, wide_cfg=True)
        c["sub"] = "wide"
        yield c
    # raw control characters (no TabsProcessor guaranteed)
    for _ in range(150 if quick else 1200):
        c = random_case(rng, ["a", "b", "\t", "\x01", " ", "\x7f", "\xa0", "\x85"])
        c["sub"] = "control"
        yield c


def _scrolls(case):
    for st in case["ops"]:
        lines = st["text"].split("\n")
        if len(lines) > st["h"] or any(len(l) + 1 > st["w"] for l in lines):
            return True
    return False


def nontrivial(case):
    return _scrolls(case)


def sample_view(case):
    if len(case["ops"]) > 3:
        return dict(case, ops=case["ops"][:3] + [f"... {len(case['ops'])} states through one window"])
    return case


def distribution(cases):
    d = {"states": 0, "sub": {}, "wrap": {"on": 0, "off": 0}, "width": {}, "height": {}, "lines": {}, "cfg": {}}
    for c in cases:
        d["sub"][c.get("sub", "width-1")] = d["sub"].get(c.get("sub", "width-1"), 0) + 1
        for k in ("prefix", "margin", "lefts", "rights", "procs", "beyond", "init", "cbs"):
            if c.get(k):
                d["cfg"][k] = d["cfg"].get(k, 0) + 1
        if any(c.get("so", [0])):
            d["cfg"]["scroll_offsets"] = d["cfg"].get("scroll_offsets", 0) + 1
        for st in c["ops"]:
            d["states"] += 1
            d["wrap"]["on" if st["wrap"] else "off"] += 1
            for key, v in (("width", st["w"]), ("height", st["h"]), ("lines", st["text"].count("\n") + 1)):
                kk = str(v) if v < 10 else "10+"
                d[key][kk] = d[key].get(kk, 0) + 1
    return d


if __name__ == "__main__":
    sys.exit(core.main(sys.modules[__name__]))
