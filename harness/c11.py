#!/venv/bin/python
"""C11 — cursor visible and on its character after every render:
correspondence with Ptk.Model.C11 + property oracle on the real Window/BufferControl."""
from __future__ import annotations

import asyncio
import itertools
import os
import sys

sys.path.insert(0, os.path.dirname(os.path.abspath(__file__)))
import core
from core import enc_str

from prompt_toolkit.application import Application
from prompt_toolkit.application.current import set_app
from prompt_toolkit.buffer import Buffer
from prompt_toolkit.document import Document
from prompt_toolkit.filters import Condition
from prompt_toolkit.input import DummyInput
from prompt_toolkit.layout import Layout
from prompt_toolkit.layout.containers import ScrollOffsets, Window
from prompt_toolkit.layout.controls import BufferControl
from prompt_toolkit.layout.margins import NumberedMargin
from prompt_toolkit.layout.mouse_handlers import MouseHandlers
from prompt_toolkit.layout.processors import (AfterInput, BeforeInput, PasswordProcessor,
                                              ShowLeadingWhiteSpaceProcessor,
                                              ShowTrailingWhiteSpaceProcessor, TabsProcessor)
from prompt_toolkit.layout.screen import Screen, WritePosition
from prompt_toolkit.output import DummyOutput
from prompt_toolkit.utils import get_cwidth

ID = "C11"
DRIVER = "drv_c11"
PROPS = ["Ptk.Props.C11"]


# ------------------------------------------------------------------ real code
def make_processors(procs):
    out = []
    for p in procs:
        k = p[0]
        if k == "T":
            out.append(TabsProcessor(tabstop=p[1], char1=p[2], char2=p[3]))
        elif k == "B":
            out.append(BeforeInput(p[1]))
        elif k == "A":
            out.append(AfterInput(p[1]))
        elif k == "P":
            out.append(PasswordProcessor(char=p[1]))
        elif k == "L":
            out.append(ShowLeadingWhiteSpaceProcessor(get_char=lambda c=p[1]: c))
        elif k == "R":
            out.append(ShowTrailingWhiteSpaceProcessor(get_char=lambda c=p[1]: c))
        else:
            raise ValueError(p)
    return out


class Rig:
    """One real Window over one real BufferControl, rendered step by step."""

    def __init__(self, case):
        self.case = case
        self.cur = {"wrap": True}
        self.buf = Buffer()
        pre = case.get("prefix")
        glp = None
        if pre is not None:
            def glp(lineno, wrap_count, pre=pre):
                if wrap_count > 0:
                    return pre[2]
                return pre[0] if lineno == 0 else pre[1]
        so = case.get("so", [0, 0, 0, 0])
        self.control = BufferControl(self.buf, input_processors=make_processors(case.get("procs", [])))
        self.win = Window(
            self.control,
            wrap_lines=Condition(lambda: self.cur["wrap"]),
            left_margins=[NumberedMargin()] if case.get("margin") else [],
            scroll_offsets=ScrollOffsets(top=so[0], bottom=so[1], left=so[2], right=so[3]),
            allow_scroll_beyond_bottom=bool(case.get("beyond", False)),
            get_line_prefix=glp,
        )
        self.app = Application(layout=Layout(self.win), input=DummyInput(), output=DummyOutput())
        init = case.get("init")
        if init:
            self.win.vertical_scroll, self.win.horizontal_scroll, self.win.vertical_scroll_2 = init

    def render(self, step):
        """returns (screen, write_position)"""
        self.cur = step
        self.buf.set_document(Document(step["text"], step["cur"]), bypass_readonly=True)
        self.app.render_counter += 1
        sc = Screen()
        wp = WritePosition(self.case.get("xpos", 0), self.case.get("ypos", 0), step["w"], step["h"])
        self.win.write_to_screen(sc, MouseHandlers(), wp, "", False, None)
        return sc, wp


def run_case(case, fn):
    """run fn(rig, step, screen, wp) after every render of the case, inside a running loop"""
    out = []

    async def go():
        rig = Rig(case)
        with set_app(rig.app):
            for step in case["steps"]:
                sc, wp = rig.render(step)
                out.append(fn(rig, step, sc, wp))

    asyncio.run(go())
    return out


def enc_row(cells):
    return "r:" + ",".join(".".join(str(ord(c)) for c in cell) for cell in cells)


def observe(rig, step, sc, wp):
    win = rig.win
    ri = win.render_info
    uc = ri.ui_content
    xoff, yoff = ri._x_offset, ri._y_offset
    cw = ri.window_width
    cp = sc.cursor_positions.get(win)
    toks = [str(win.vertical_scroll), str(win.horizontal_scroll), str(win.vertical_scroll_2),
            str(uc.cursor_position.y), str(uc.cursor_position.x), str(cw), str(xoff)]
    toks.append("N N" if cp is None else f"{cp.y} {cp.x}")
    vl = ri.visible_line_to_row_col
    toks.append("vl " + " ".join([str(len(vl))] + [f"{y} {r} {c}" for y, (r, c) in vl.items()]))
    rc = ri._rowcol_to_yx
    toks.append("rc " + " ".join([str(len(rc))] + [f"{r} {c} {y} {x}" for (r, c), (y, x) in rc.items()]))
    rows = []
    for y in range(wp.height):
        row = sc.data_buffer[yoff + y]
        rows.append(enc_row([row[xoff + x].char for x in range(max(cw, 0))]))
    toks.append(" ".join(rows))
    return " ".join(toks)


def impl_lines(case):
    out = ["ok"]
    out += run_case(case, observe)
    return out


# ------------------------------------------------------------------ model side
def enc_procs(procs):
    toks = [str(len(procs))]
    for p in procs:
        if p[0] == "T":
            toks += ["T", str(p[1]), str(ord(p[2])), str(ord(p[3]))]
        elif p[0] in "BA":
            toks += [p[0], enc_str(p[1])]
        else:
            toks += [p[0], str(ord(p[1]))]
    return " ".join(toks)


def model_lines(case):
    init = case.get("init") or [0, 0, 0]
    so = case.get("so", [0, 0, 0, 0])
    pre = case.get("prefix")
    cfg = " ".join([
        str(case.get("xpos", 0)), str(case.get("ypos", 0)),
        " ".join(str(x) for x in so), "1" if case.get("beyond") else "0",
        "1" if case.get("margin") else "0",
        ("1 " + " ".join(enc_str(p) for p in pre)) if pre is not None else "0 s: s: s:",
        enc_procs(case.get("procs", []))])
    out = [f"init {init[0]} {init[1]} {init[2]}"]
    for st in case["steps"]:
        out.append(f"render {st['w']} {st['h']} {'1' if st['wrap'] else '0'} {cfg} {enc_str(st['text'])} {st['cur']}")
    return out


# ------------------------------------------------------------------ oracle
def expected_char(case, text, cur):
    """what the cell under the cursor must show: the character under the cursor, or the blank
    after the line end (through the configured processors: first tab cell / password mask / visible
    whitespace)."""
    c = text[cur] if cur < len(text) and text[cur] != "\n" else None
    procs = case.get("procs", [])
    lines = text.split("\n")
    row = text.count("\n", 0, cur)
    col = cur - (text.rfind("\n", 0, cur) + 1)
    line = lines[row]
    cands = set()
    if c is None:
        # blank after the line end -- unless text is appended after the input on this line
        cands.add(" ")
        for p in procs:
            if p[0] == "A" and row == len(lines) - 1 and p[1]:
                cands = {p[1][0]}
            if p[0] == "R":
                cands.add(p[1])
        return cands
    cands.add(c)
    for p in procs:
        if p[0] == "T" and c == "\t":
            cands = {p[2]}
        if p[0] == "P":
            cands = {p[1]}
        if p[0] == "L" and c == " " and line[:col + 1].strip(" ") == "":
            cands.add(p[1])
        if p[0] == "R" and c == " " and line[col:].strip(" ") == "":
            cands.add(p[1])
    return cands


def sig_class(case, step, text, cur):
    wide = any(get_cwidth(ch) != 1 for ch in text if ch not in "\n\t") or \
        any(get_cwidth(ch) != 1 for p in (case.get("prefix") or []) for ch in p) or \
        any(get_cwidth(ch) != 1 for p in case.get("procs", []) for a in p[1:] if isinstance(a, str) for ch in a)
    ctrl = any((ord(ch) < 32 or 127 <= ord(ch) < 160) and ch != "\n" for ch in text)
    has_tabs_proc = any(p[0] == "T" for p in case.get("procs", []))
    if ctrl and not (has_tabs_proc and all(ch == "\t" or not (ord(ch) < 32 or 127 <= ord(ch) < 160)
                                           for ch in text if ch != "\n")):
        return "control characters shown as ^X"
    if wide:
        return "wide or zero-width characters"
    return "width-1 characters"


def check_render(rig, step, sc, wp):
    case = rig.case
    v = []
    win = rig.win
    ri = win.render_info
    text, cur = step["text"], step["cur"]
    cls = sig_class(case, step, text, cur)
    mode = "wrap" if step["wrap"] else "nowrap"

    def bad(site, cond, msg):
        v.append({"signature": f"{site} | {cond}",
                  "msg": f"{msg}: text={text!r} cur={cur} w={step['w']} h={step['h']} wrap={step['wrap']} "
                         f"vs={win.vertical_scroll} hs={win.horizontal_scroll} vs2={win.vertical_scroll_2} "
                         f"cfg={ {k: case.get(k) for k in ('so', 'margin', 'prefix', 'procs', 'beyond', 'init')} }"})

    xoff, yoff, cw, h = ri._x_offset, ri._y_offset, ri.window_width, wp.height
    cp = sc.cursor_positions.get(win)
    doc = rig.buf.document
    row, col = doc.cursor_position_row, doc.cursor_position_col
    if cp is None:
        bad("Window.write_to_screen", f"{mode}, {cls}: no cursor position set", "focused window set no cursor")
        return v
    # (1) the cursor is reported where the render info says the cursor cell was drawn
    uc = ri.ui_content
    key = (uc.cursor_position.y, uc.cursor_position.x)
    if key not in ri._rowcol_to_yx:
        bad("Window._copy_body", f"{mode}, {cls}: cursor cell not drawn (fallback 0,0)",
            "the cell addressed by the cursor was not drawn inside the window; cursor reported at the fallback")
        return v
    y, x = ri._rowcol_to_yx[key]
    if (cp.y, cp.x) != (y, x):
        bad("Window._copy_body", f"{mode}, {cls}: cursor differs from render info", "cursor_positions != rowcol_to_yx")
    # (2) inside the window body
    if not (xoff <= cp.x < xoff + cw and yoff <= cp.y < yoff + h):
        bad("Window._copy_body", f"{mode}, {cls}: cursor outside window", f"cursor {cp} outside the window body")
        return v
    # (3) on the character it addresses
    cell = sc.data_buffer[cp.y][cp.x].char
    exp = expected_char(case, text, cur)
    if cell not in exp and not (cell[:1] in exp and all(get_cwidth(c) == 0 for c in cell[1:])):
        bad("Window._copy_body", f"{mode}, {cls}: cursor not on its character",
            f"cell under the cursor shows {cell!r}, expected one of {sorted(exp)}")
    # (4) the screen row of the cursor belongs to the cursor's document line
    vl = ri.visible_line_to_row_col
    if vl.get(cp.y - yoff, (None, None))[0] != row:
        bad("Window._copy_body", f"{mode}, {cls}: cursor row maps to another line",
            f"visible_line_to_row_col[{cp.y - yoff}]={vl.get(cp.y - yoff)} but the cursor is on line {row}")
    # (5) rows shown are consecutive document lines in order
    shown = [vl[k][0] for k in sorted(vl) if 0 <= k < h]
    keys = [k for k in sorted(vl) if 0 <= k < h]
    if keys != list(range(len(keys))):
        bad("Window._copy_body", f"{mode}, {cls}: displayed rows not contiguous", f"screen rows {keys}")
    if shown:
        if shown[0] != win.vertical_scroll:
            bad("Window._copy_body", f"{mode}, {cls}: first row is not vertical_scroll", f"rows {shown}")
        for a, b in zip(shown, shown[1:]):
            if b - a not in ((0, 1) if step["wrap"] else (1,)):
                bad("Window._copy_body", f"{mode}, {cls}: rows not consecutive", f"rows {shown}")
                break
    # (6) column maps of the cursor line
    pl = rig.control._last_get_processed_line(row)
    line = doc.lines[row]
    prev = None
    for i in range(len(line) + 1):
        try:
            d = pl.source_to_display(i)
            b = pl.display_to_source(d)
        except Exception as e:  # noqa
            bad("processors", f"position map raises {type(e).__name__}", f"source_to_display({i})")
            break
        if b != i:
            bad("processors", "display_to_source(source_to_display(i)) != i", f"i={i} d={d} back={b}")
            break
        if prev is not None and d <= prev:
            bad("processors", "source_to_display not strictly increasing", f"i={i} d={d} prev={prev}")
            break
        prev = d
    return v


def oracle(case):
    res = run_case(case, check_render)
    seen, out = set(), []
    for vs in res:
        for x in vs:
            if x["signature"] not in seen:
                seen.add(x["signature"])
                out.append(x)
    return out


if __name__ == "__main__":
    sys.exit(core.main(sys.modules[__name__]))
