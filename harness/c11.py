#!/venv/bin/python
"""C11 — cursor visible and on its character after every render:
correspondence with Ptk.Model.C11 + property oracle on the real Window/BufferControl."""
from __future__ import annotations

import asyncio
import itertools
import os
import sys

sys.path.insert(0, os.path.dirname(os.path.abspath(__file__)))
import core
from core import enc_str

from prompt_toolkit.application import Application
from prompt_toolkit.application.current import set_app
from prompt_toolkit.buffer import Buffer
from prompt_toolkit.document import Document
from prompt_toolkit.filters import Condition
from prompt_toolkit.input import DummyInput
from prompt_toolkit.layout import Layout
from prompt_toolkit.layout.containers import ScrollOffsets, Window
from prompt_toolkit.layout.controls import BufferControl
from prompt_toolkit.layout.margins import NumberedMargin
from prompt_toolkit.layout.mouse_handlers import MouseHandlers
from prompt_toolkit.layout.processors import (AfterInput, BeforeInput, PasswordProcessor,
                                              ShowLeadingWhiteSpaceProcessor,
                                              ShowTrailingWhiteSpaceProcessor, TabsProcessor)
from prompt_toolkit.layout.screen import Char, Screen, WritePosition
from prompt_toolkit.output import DummyOutput
from prompt_toolkit.utils import get_cwidth

ID = "C11"
DRIVER = "drv_c11"
PROPS = ["Ptk.Props.C11Scroll", "Ptk.Props.C11Copy", "Ptk.Props.C11Lines", "Ptk.Props.C11Window",
         "Ptk.Props.C11Rows", "Ptk.Props.C11Procs", "Ptk.Props.C11Doc", "Ptk.Props.C11Exact", "Ptk.Props.C11"]
ANCHORS = ["src/prompt_toolkit/layout/containers.py", "src/prompt_toolkit/layout/controls.py",
           "src/prompt_toolkit/layout/processors.py", "src/prompt_toolkit/layout/margins.py",
           "src/prompt_toolkit/layout/screen.py", "src/prompt_toolkit/utils.py"]
TECHNIQUE = "machine-checked proof (Lean 4) over an executable model + differential correspondence + property oracle"
LEVEL_TEXT = ("Lean 4 theorems over an executable model of rendering a focused text window (processors' position "
              "maps, BufferControl content with the trailing blank, get_height_for_line, both scroll algorithms, "
              "Window._copy_body with wrapping / prefixes / horizontal scroll): after every render, for every "
              "previous scroll state, the cursor cell is drawn inside the window on the cursor's character and the "
              "rows are consecutive document lines (width-1 cells); tab / BeforeInput / merged position maps round "
              "trip and are monotone; tied to /repo on every run by a differential correspondence on the real "
              "Window(BufferControl) rendered into a Screen (exhaustive small scope + random histories) and by the "
              "property oracle")
LEVEL_NOTE = ("trusted: Lean kernel, axioms propext/Classical.choice/Quot.sound only; the hand-written model "
              "(validated by the correspondence, not proved equal to the Python); window_size / 2 is exact in IEEE "
              "double for |window_size| < 2^53; wide / zero-width / control characters are correspondence-only")
RULE = ("exhaustive: every text over {a, newline} (and tab when a TabsProcessor is configured) up to the tier's length bound x content widths 1..4 x heights "
        "1..3 x wrapping on/off x a fixed list of window configurations (scroll offsets, previous scroll state, line "
        "prefixes of constant and varying width, numbered margin, Tabs/BeforeInput/AfterInput/Password processors), "
        "each case rendering ALL cursor positions one after the other through ONE window (scroll state carries "
        "over); then seeded random histories (1-8 states, lines of length k*w-1, k*w, k*w+1, up to 12 lines, "
        "widths 1..9, heights 1..5, window size and wrap mode changing between states), a wide / zero-width "
        "sub-domain and a raw control character sub-domain; a case is non-trivial when some state has to scroll "
        "(text longer than one window row or more lines than the height)")
EXHAUSTIVE = True
EXHAUSTIVE_SCOPE = {
    "quick": "texts over {a,\\n} len<=4 (len<=5 plain configuration; {a,\\n,\\t} len<=3 with TabsProcessor) x w 1..4 x h 1..3 x "
             "wrap x 11 configurations, all cursors",
    "thorough": "texts over {a,\\n} len<=6 (len<=7 for 3 configurations; {a,\\n,\\t} len<=4 with TabsProcessor) x w 1..4 x "
                "h 1..3 x wrap x 11 configurations, all cursors"}
TRUSTED = ["harness/c11.py compares, after every Window.write_to_screen: vertical/horizontal/intra-line scroll, the "
           "content cursor, Screen.cursor_positions[window], render_info.visible_line_to_row_col and _rowcol_to_yx "
           "(in insertion order) and every cell of the window body",
           "Ptk/Model/C11.lean is a hand translation of the anchored layout code (correspondence-checked)",
           "harness/gen_c11.py: get_cwidth / Char.display_mappings tables regenerated from the current tree, and "
           "two behavioural probes of get_height_for_line (does the scroll code measure characters as drawn? does "
           "it wrap non-1-column lines character by character?) that select the matching model variant"]
ASSUMPTIONS = ["float: window_size / 2 is exact and int() truncates toward zero (|window_size| < 2^53)",
               "get_line_prefix returns plain text depending on (lineno == 0, wrap_count > 0) in the correspondence; "
               "theorems: any prefix-width function with width < window width",
               "no get_vertical_scroll / get_horizontal_scroll callbacks, align = LEFT, no menus / floats",
               "theorems assume every cell is one column wide (get_cwidth = Char.width = 1)"]
PARTIAL_SCOPE = ["wide and zero-width characters: correspondence + oracle only, the theorems about the code as it is "
                 "assume one-column cells (KNOWN finding: the wrapped height estimate ignores the early wrapping of "
                 "double-width characters; repair proposed_fixes/C11-wide-wrap-height.diff NOT applied, its model "
                 "variant is proved exact for all cell widths in Props/C11Exact and would be selected by a probed flag)",
                 "raw control characters (TAB without TabsProcessor, ^X): since fix 9db5f12 measured as drawn (2 cells); "
                 "with wrapping they then share the double-width KNOWN finding; with a TabsProcessor tabs are covered "
                 "by the theorems",
                 "a zero-width character under the cursor has no cell of its own (KNOWN finding, own class)",
                 "ShowLeading/TrailingWhiteSpaceProcessor, highlight processors (identity maps) not modelled",
                 "NumberedMargin: only its width is modelled, not the margin text",
                 "get_vertical_scroll / get_horizontal_scroll callbacks, align != LEFT, menus, floats not modelled"]


# ------------------------------------------------------------------ real code
def make_processors(procs):
    out = []
    for p in procs:
        k = p[0]
        if k == "T":
            out.append(TabsProcessor(tabstop=p[1], char1=p[2], char2=p[3]))
        elif k == "B":
            out.append(BeforeInput(p[1]))
        elif k == "A":
            out.append(AfterInput(p[1]))
        elif k == "P":
            out.append(PasswordProcessor(char=p[1]))
        elif k == "L":
            out.append(ShowLeadingWhiteSpaceProcessor(get_char=lambda c=p[1]: c))
        elif k == "R":
            out.append(ShowTrailingWhiteSpaceProcessor(get_char=lambda c=p[1]: c))
        else:
            raise ValueError(p)
    return out


_APP = None


def shared_app():
    """one Application per process (building one loads all key bindings: ~6 ms); each Rig installs
    its own Layout, so the window under test is the focused one"""
    global _APP
    if _APP is None:
        _APP = Application(layout=Layout(Window()), input=DummyInput(), output=DummyOutput())
    return _APP


class Rig:
    """One real Window over one real BufferControl, rendered step by step."""

    def __init__(self, case):
        self.case = case
        self.cur = {"wrap": True}
        self.buf = Buffer()
        pre = case.get("prefix")
        glp = None
        if pre is not None:
            def glp(lineno, wrap_count, pre=pre):
                if wrap_count > 0:
                    return pre[2]
                return pre[0] if lineno == 0 else pre[1]
        so = case.get("so", [0, 0, 0, 0])
        self.control = BufferControl(self.buf, input_processors=make_processors(case.get("procs", [])))
        self.win = Window(
            self.control,
            wrap_lines=Condition(lambda: self.cur["wrap"]),
            left_margins=[NumberedMargin()] if case.get("margin") else [],
            scroll_offsets=ScrollOffsets(top=so[0], bottom=so[1], left=so[2], right=so[3]),
            allow_scroll_beyond_bottom=bool(case.get("beyond", False)),
            get_line_prefix=glp,
        )
        self.app = shared_app()
        self.app.layout = Layout(self.win)
        self.app.render_counter += 1
        init = case.get("init")
        if init:
            self.win.vertical_scroll, self.win.horizontal_scroll, self.win.vertical_scroll_2 = init

    def render(self, step):
        """returns (screen, write_position)"""
        self.cur = step
        self.buf.set_document(Document(step["text"], step["cur"]), bypass_readonly=True)
        self.app.render_counter += 1
        sc = Screen()
        wp = WritePosition(self.case.get("xpos", 0), self.case.get("ypos", 0), step["w"], step["h"])
        self.win.write_to_screen(sc, MouseHandlers(), wp, "", False, None)
        return sc, wp


def run_case(case, fn):
    """run fn(rig, step, screen, wp) after every render of the case, inside a running loop"""
    out = []

    async def go():
        rig = Rig(case)
        with set_app(rig.app):
            for step in case["ops"]:
                sc, wp = rig.render(step)
                out.append(fn(rig, step, sc, wp))

    asyncio.run(go())
    return out


def enc_row(cells):
    return "r:" + ",".join(".".join(str(ord(c)) for c in cell) for cell in cells)


def observe(rig, step, sc, wp):
    win = rig.win
    ri = win.render_info
    uc = ri.ui_content
    xoff, yoff = ri._x_offset, ri._y_offset
    cw = ri.window_width
    cp = sc.cursor_positions.get(win)
    toks = [str(win.vertical_scroll), str(win.horizontal_scroll), str(win.vertical_scroll_2),
            str(uc.cursor_position.y), str(uc.cursor_position.x), str(cw), str(xoff)]
    toks.append("N N" if cp is None else f"{cp.y} {cp.x}")
    vl = ri.visible_line_to_row_col
    toks.append("vl " + " ".join([str(len(vl))] + [f"{y} {r} {c}" for y, (r, c) in vl.items()]))
    rc = ri._rowcol_to_yx
    toks.append("rc " + " ".join([str(len(rc))] + [f"{r} {c} {y} {x}" for (r, c), (y, x) in rc.items()]))
    # position maps of the cursor line: source_to_display(0..len), display_to_source(0..displaylen+1)
    doc = rig.buf.document
    pl = rig.control._last_get_processed_line(doc.cursor_position_row)
    n = len(doc.current_line)
    s2d = []
    for i in range(n + 1):
        try:
            s2d.append(str(pl.source_to_display(i)))
        except KeyError:
            s2d.append("E")
    m = sum(len(t) for _, t, *_ in pl.fragments)
    d2s = [str(pl.display_to_source(j)) for j in range(m + 2)]
    toks.append("pm " + " ".join([str(len(s2d))] + s2d) + " dm " + " ".join([str(len(d2s))] + d2s))
    rows = []
    for y in range(wp.height):
        row = sc.data_buffer[yoff + y]
        rows.append(enc_row([row[xoff + x].char for x in range(max(cw, 0))]))
    toks.append(" ".join(rows))
    return " ".join(toks)


def impl_lines(case):
    out = ["ok"]
    out += run_case(case, observe)
    return out


# ------------------------------------------------------------------ model side
def enc_procs(procs):
    toks = [str(len(procs))]
    for p in procs:
        if p[0] == "T":
            toks += ["T", str(p[1]), str(ord(p[2])), str(ord(p[3]))]
        elif p[0] in "BA":
            toks += [p[0], enc_str(p[1])]
        else:
            toks += [p[0], str(ord(p[1]))]
    return " ".join(toks)


def model_lines(case):
    init = case.get("init") or [0, 0, 0]
    so = case.get("so", [0, 0, 0, 0])
    pre = case.get("prefix")
    cfg = " ".join([
        str(case.get("xpos", 0)), str(case.get("ypos", 0)),
        " ".join(str(x) for x in so), "1" if case.get("beyond") else "0",
        "1" if case.get("margin") else "0",
        ("1 " + " ".join(enc_str(p) for p in pre)) if pre is not None else "0 s: s: s:",
        enc_procs(case.get("procs", []))])
    out = [f"init {init[0]} {init[1]} {init[2]}"]
    for st in case["ops"]:
        out.append(f"render {st['w']} {st['h']} {'1' if st['wrap'] else '0'} {cfg} {enc_str(st['text'])} {st['cur']}")
    return out


# ------------------------------------------------------------------ oracle
def expected_char(case, text, cur):
    """what the cell under the cursor must show: the character under the cursor, or the blank
    after the line end -- seen through the configured processors applied in order (a tab becomes
    the first tab cell, PasswordProcessor masks what is there, AfterInput text starts where the
    last line ends); control characters are shown through Char.display_mappings."""
    ch = text[cur] if cur < len(text) and text[cur] != "\n" else None
    last_line = "\n" not in text[cur:]
    for p in case.get("procs", []):
        if p[0] == "T" and ch == "\t":
            ch = p[2]
        elif p[0] == "P" and ch is not None:
            ch = p[1]
        elif p[0] == "A" and ch is None and last_line and p[1]:
            ch = p[1][0]
    if ch is None:
        ch = " "
    return {Char.display_mappings.get(ch, ch)}


def zero_width_under_cursor(text, cur):
    under = text[cur] if cur < len(text) else " "
    return under not in "\n\t" and get_cwidth(under) == 0 and under not in Char.display_mappings


def sig_class(case, step, text, cur):
    if zero_width_under_cursor(text, cur):
        # a combining character has no cell of its own (it is merged into the previous cell)
        return "zero-width character under the cursor"
    wide = any(get_cwidth(ch) != 1 for ch in text if ch not in "\n\t") or \
        any(get_cwidth(ch) != 1 for p in (case.get("prefix") or []) for ch in p) or \
        any(get_cwidth(ch) != 1 for p in case.get("procs", []) for a in p[1:] if isinstance(a, str) for ch in a)
    ctrl = any((ord(ch) < 32 or 127 <= ord(ch) < 160) and ch != "\n" for ch in text)
    has_tabs_proc = any(p[0] == "T" for p in case.get("procs", []))
    if ctrl and not (has_tabs_proc and all(ch == "\t" or not (ord(ch) < 32 or 127 <= ord(ch) < 160)
                                           for ch in text if ch != "\n")):
        return "control characters shown as ^X"
    if wide:
        return "wide or zero-width characters"
    return "width-1 characters"


def check_render(rig, step, sc, wp):
    case = rig.case
    v = []
    win = rig.win
    ri = win.render_info
    text, cur = step["text"], step["cur"]
    cls = sig_class(case, step, text, cur)
    mode = "wrap" if step["wrap"] else "nowrap"

    def bad(site, cond, msg):
        v.append({"signature": f"{site} | {cond}",
                  "msg": f"{msg}: text={text!r} cur={cur} w={step['w']} h={step['h']} wrap={step['wrap']} "
                         f"vs={win.vertical_scroll} hs={win.horizontal_scroll} vs2={win.vertical_scroll_2} "
                         f"cfg={ {k: case.get(k) for k in ('so', 'margin', 'prefix', 'procs', 'beyond', 'init')} }"})

    xoff, yoff, cw, h = ri._x_offset, ri._y_offset, ri.window_width, wp.height
    cp = sc.cursor_positions.get(win)
    doc = rig.buf.document
    row, col = doc.cursor_position_row, doc.cursor_position_col
    if cp is None:
        bad("Window.write_to_screen", f"{mode}, {cls}: no cursor position set", "focused window set no cursor")
        return v
    # (1) the cursor is reported where the render info says the cursor cell was drawn
    uc = ri.ui_content
    key = (uc.cursor_position.y, uc.cursor_position.x)
    if key not in ri._rowcol_to_yx:
        bad("Window._copy_body", f"{mode}, {cls}: cursor cell not drawn (fallback 0,0)",
            "the cell addressed by the cursor was not drawn inside the window; cursor reported at the fallback")
        return v
    y, x = ri._rowcol_to_yx[key]
    if (cp.y, cp.x) != (y, x):
        bad("Window._copy_body", f"{mode}, {cls}: cursor differs from render info", "cursor_positions != rowcol_to_yx")
    # (2) inside the window body
    if not (xoff <= cp.x < xoff + cw and yoff <= cp.y < yoff + h):
        bad("Window._copy_body", f"{mode}, {cls}: cursor outside window", f"cursor {cp} outside the window body")
        return v
    # (3) on the character it addresses
    cell = sc.data_buffer[cp.y][cp.x].char
    exp = expected_char(case, text, cur)
    if zero_width_under_cursor(text, cur):
        pass  # a zero-width (combining) character has no cell of its own: not asserted
    elif cell not in exp and not (cell[:1] in exp and all(get_cwidth(c) == 0 for c in cell[1:])):
        bad("Window._copy_body", f"{mode}, {cls}: cursor not on its character",
            f"cell under the cursor shows {cell!r}, expected one of {sorted(exp)}")
    # (4) the screen row of the cursor belongs to the cursor's document line
    vl = ri.visible_line_to_row_col
    if vl.get(cp.y - yoff, (None, None))[0] != row:
        bad("Window._copy_body", f"{mode}, {cls}: cursor row maps to another line",
            f"visible_line_to_row_col[{cp.y - yoff}]={vl.get(cp.y - yoff)} but the cursor is on line {row}")
    # (5) rows shown are consecutive document lines in order
    shown = [vl[k][0] for k in sorted(vl) if 0 <= k < h]
    keys = [k for k in sorted(vl) if 0 <= k < h]
    if keys != list(range(len(keys))):
        bad("Window._copy_body", f"{mode}, {cls}: displayed rows not contiguous", f"screen rows {keys}")
    if shown:
        if shown[0] != win.vertical_scroll:
            bad("Window._copy_body", f"{mode}, {cls}: first row is not vertical_scroll", f"rows {shown}")
        for a, b in zip(shown, shown[1:]):
            if b - a not in ((0, 1) if step["wrap"] else (1,)):
                bad("Window._copy_body", f"{mode}, {cls}: rows not consecutive", f"rows {shown}")
                break
    # (6) column maps of the cursor line
    pl = rig.control._last_get_processed_line(row)
    line = doc.lines[row]
    prev = None
    for i in range(len(line) + 1):
        try:
            d = pl.source_to_display(i)
            b = pl.display_to_source(d)
        except Exception as e:  # noqa
            bad("processors", f"position map raises {type(e).__name__}", f"source_to_display({i})")
            break
        if b != i:
            bad("processors", "display_to_source(source_to_display(i)) != i", f"i={i} d={d} back={b}")
            break
        if prev is not None and d <= prev:
            bad("processors", "source_to_display not strictly increasing", f"i={i} d={d} prev={prev}")
            break
        prev = d
    return v


def oracle(case):
    res = run_case(case, check_render)
    seen, out = set(), []
    for vs in res:
        for x in vs:
            if x["signature"] not in seen:
                seen.add(x["signature"])
                out.append(x)
    return out

# ------------------------------------------------------------------ generators
ALPHA = ["a", "\n", "\t"]
CFGS = [
    {},
    {"so": [1, 1, 1, 1]},
    {"prefix": ["> ", ". ", ". "]},
    {"so": [2, 0, 0, 2], "beyond": True, "init": [3, 5, 2]},
    {"prefix": [">>", "", "-"], "so": [0, 1, 0, 1]},
    {"procs": [["T", 4, "|", "."]]},
    {"procs": [["B", "> "], ["T", 3, "|", "-"]], "so": [1, 0, 1, 0]},
    {"margin": True, "xpos": 2, "ypos": 1},
    {"procs": [["T", 2, "|", "-"], ["B", "$"]], "so": [0, 1, 1, 0], "prefix": ["", "", "+"]},
    {"procs": [["P", "*"], ["A", "<<"]], "init": [1, 1, 1]},
    {"so": [3, 3, 3, 3], "init": [7, 9, 4], "margin": True, "prefix": [":", ":", ":"]},
]


def extra_width(cfg, nlines=1):
    pre = cfg.get("prefix")
    pw = max(get_cwidth(p) for p in pre) if pre else 0
    mw = max(3, len(str(nlines)) + 1) if cfg.get("margin") else 0
    return pw + mw


def sweep_case(cfg, text, w, h, wrap):
    n = len(text)
    tw = w + extra_width(cfg, text.count("\n") + 1)
    curs = list(range(n + 1)) + [0, n, n // 2]
    return dict(cfg, ops=[{"text": text, "cur": c, "w": tw, "h": h, "wrap": wrap} for c in curs])


def boundary_text(rng, w, alpha):
    lines = []
    for _ in range(rng.choice([1, 1, 2, 3, 5, 12])):
        k = rng.choice([0, 1, 1, 2, 3])
        ln = max(0, k * w + rng.choice([-1, 0, 0, 1]))
        if rng.random() < 0.2:
            ln = rng.randrange(0, 30)
        lines.append("".join(rng.choice(alpha) for _ in range(ln)))
    return "\n".join(lines)


RAND_CFG_PROCS = [[], [], [["T", 4, "|", "."]], [["T", 1, "|", "."]], [["B", ">> "]], [["B", "> "], ["T", 3, "|", "-"]],
                  [["T", 8, ">", " "], ["B", "$"]], [["A", "<<"]], [["P", "*"]], [["B", "a"], ["B", "bc"], ["T", 5, "|", "."]],
                  [["A", "!"], ["T", 4, "|", "."], ["P", "#"]]]
RAND_PREFIX = [None, None, None, ["> ", ". ", ". "], ["", "", "-"], [">>", "", ""], [">", "..", "+"], ["abc", "abc", "abc"]]


def random_case(rng, alpha, tab_always=False):
    cfg = {"so": [rng.choice([0, 0, 1, 2, 3, 9]) for _ in range(4)],
           "init": rng.choice([None, None, [rng.randrange(15), rng.randrange(15), rng.randrange(6)]]),
           "prefix": rng.choice(RAND_PREFIX), "margin": rng.random() < 0.3,
           "procs": rng.choice(RAND_CFG_PROCS), "beyond": rng.random() < 0.3,
           "xpos": rng.choice([0, 0, 3]), "ypos": rng.choice([0, 0, 2])}
    if tab_always and not any(p[0] == "T" for p in cfg["procs"]):
        cfg["procs"] = cfg["procs"] + [["T", rng.choice([1, 2, 4, 8]), "|", "."]]
    w = rng.randrange(1, 10)
    h = rng.randrange(1, 6)
    wrap = rng.random() < 0.5
    text = boundary_text(rng, w, alpha)
    steps = []
    for _ in range(rng.randrange(1, 9)):
        r = rng.random()
        if r < 0.35:
            text = boundary_text(rng, w, alpha)
        elif r < 0.45:
            w = rng.randrange(1, 10)
        elif r < 0.55:
            h = rng.randrange(1, 6)
        elif r < 0.65:
            wrap = not wrap
        n = len(text)
        cur = rng.choice([0, n, rng.randrange(n + 1), rng.randrange(n + 1)])
        if rng.random() < 0.3 and w > 0 and n:
            # cursor at an exact multiple of the width inside some line
            starts = [0] + [i + 1 for i, ch in enumerate(text) if ch == "\n"]
            s0 = rng.choice(starts)
            cur = min(n, s0 + w * rng.randrange(0, 4))
            if "\n" in text[s0:cur]:
                cur = s0
        steps.append({"text": text, "cur": cur, "w": w + extra_width(cfg, text.count("\n") + 1), "h": h, "wrap": wrap})
    cfg["ops"] = steps
    return cfg


def cases(tier, rng):
    quick = tier == "quick"
    # exhaustive small scope
    for ci, cfg in enumerate(CFGS):
        has_tabs = any(p[0] == "T" for p in cfg.get("procs", []))
        alpha = ALPHA if has_tabs else ALPHA[:2]
        if quick:
            maxlen = 3 if has_tabs else (5 if ci == 0 else 4)
        else:
            maxlen = 4 if has_tabs else (7 if ci in (0, 1, 2) else 6)
        for n in range(maxlen + 1):
            for tup in itertools.product(alpha, repeat=n):
                text = "".join(tup)
                for w in range(1, 5):
                    for h in range(1, 4):
                        for wrap in (True, False):
                            yield sweep_case(cfg, text, w, h, wrap)
    # random histories: width-1 characters (tabs always through a TabsProcessor)
    for _ in range(1200 if quick else 9000):
        yield random_case(rng, ["a", "b", "c", " ", "\t"], tab_always=True)
    # wide / zero-width sub-domain
    for _ in range(300 if quick else 2500):
        c = random_case(rng, ["a", "b", " ", "世", "丁", "ｗ", "́", "é", "\t"], tab_always=True)
        c["sub"] = "wide"
        yield c
    # raw control characters (no TabsProcessor guaranteed)
    for _ in range(150 if quick else 1200):
        c = random_case(rng, ["a", "b", "\t", "\x01", " ", "\x7f", "\xa0", "\x85"])
        c["sub"] = "control"
        yield c


def _scrolls(case):
    for st in case["ops"]:
        lines = st["text"].split("\n")
        if len(lines) > st["h"] or any(len(l) + 1 > st["w"] for l in lines):
            return True
    return False


def nontrivial(case):
    return _scrolls(case)


def sample_view(case):
    if len(case["ops"]) > 3:
        return dict(case, ops=case["ops"][:3] + [f"... {len(case['ops'])} states through one window"])
    return case


def distribution(cases):
    d = {"states": 0, "sub": {}, "wrap": {"on": 0, "off": 0}, "width": {}, "height": {}, "lines": {}, "cfg": {}}
    for c in cases:
        d["sub"][c.get("sub", "width-1")] = d["sub"].get(c.get("sub", "width-1"), 0) + 1
        for k in ("prefix", "margin", "procs", "beyond", "init"):
            if c.get(k):
                d["cfg"][k] = d["cfg"].get(k, 0) + 1
        if any(c.get("so", [0])):
            d["cfg"]["scroll_offsets"] = d["cfg"].get("scroll_offsets", 0) + 1
        for st in c["ops"]:
            d["states"] += 1
            d["wrap"]["on" if st["wrap"] else "off"] += 1
            for key, v in (("width", st["w"]), ("height", st["h"]), ("lines", st["text"].count("\n") + 1)):
                kk = str(v) if v < 10 else "10+"
                d[key][kk] = d[key].get(kk, 0) + 1
    return d


if __name__ == "__main__":
    sys.exit(core.main(sys.modules[__name__]))
