#!/venv/bin/python
"""
C11 runtime character tables, re-extracted on every run -> lean/Ptk/Gen/C11.lean:

  zeroWidthRanges / wideRanges / otherWidthRanges
                   inclusive code point ranges with utils.get_cwidth(chr(cp)) = 0 / = 2 / anything
                   else than 0, 1, 2 -- for ALL code points 0 .. 0x10FFFF (lone surrogates are
                   measured too); everything not listed is 1.  The scan (~1.1 M calls) goes through
                   the CURRENT tree's get_cwidth and is cached in /verif/.work keyed on the hash of
                   that tree's utils.py and of the wcwidth package's sources.
  displayMappings  layout/screen.py Char.display_mappings  (what a cell shows for a control
                   character, e.g. TAB -> "^I"), complete
  probes / literals  see _probe_measuring, _probe_mouse_region, _source_constants
"""
from __future__ import annotations

import hashlib
import json
import os

import gen_tables as G

# round-1 sub-ranges (kept under the old name `scanned` for the cross-model agreement layer, which
# quantifies over them); the tables are complete now: `scannedAll`
SCAN = [(0, 0x3100), (0x4E00, 0x4F00), (0xFF00, 0x10000)]
ALL = [(0, 0x110000)]


def _width_ranges():
    """[(lo, hi, w)] inclusive, for every maximal run of code points whose get_cwidth is w != 1"""
    import prompt_toolkit.utils as U
    import wcwidth

    h = hashlib.sha256()
    h.update(open(U.__file__, "rb").read())
    pkg = os.path.dirname(wcwidth.__file__)
    for fn in sorted(os.listdir(pkg)):
        if fn.endswith(".py"):
            h.update(fn.encode())
            h.update(open(os.path.join(pkg, fn), "rb").read())
    work = os.path.join(G.ROOT, ".work")
    os.makedirs(work, exist_ok=True)
    cache = os.path.join(work, f"c11_cwidth_{h.hexdigest()[:20]}.json")
    if os.path.exists(cache):
        try:
            return [tuple(x) for x in json.load(open(cache))]
        except Exception:
            pass
    # measure through the tree's own cache class when it has one (so that the 1.1 M entries do not
    # stay in the process-wide cache), else through get_cwidth
    cls = getattr(U, "_CharSizesCache", None)
    own = cls() if cls is not None else None
    out = []
    start = prev = None
    cur = 1
    for cp in range(0x110000):
        ch = chr(cp)
        if own is not None:
            w = own[ch]
            if not (cp & 0xFFF):
                own.clear()
        else:
            w = U.get_cwidth(ch)
        if w != cur:
            if start is not None and cur != 1:
                out.append((start, prev, cur))
            start, cur = cp, w
        prev = cp
    if start is not None and cur != 1:
        out.append((start, prev, cur))
    if own is None:
        try:
            U._CHAR_SIZES_CACHE.clear()
        except Exception:
            pass
    tmp = cache + ".tmp%d" % os.getpid()
    with open(tmp, "w") as fh:
        json.dump(out, fh)
    os.replace(tmp, cache)
    return out


def _probe_measuring():
    """How does the scroll code of the CURRENT tree measure text?  Two behavioural probes of
    UIContent.get_height_for_line (no names of helper functions are assumed):

      disp_measure  control characters are measured as drawn (\x01 -> "^A", 2 columns) instead of
                    get_cwidth's 0:   three of them at width 2 need 3 rows instead of 1
      exact_height  a line with cells that are not one column wide is wrapped character by character
                    (a wide character that does not fit wraps early):  "a\u4e16a" at width 2 needs
                    3 rows ('a' / wide / 'a') instead of ceil(4 / 2) = 2
    """
    from prompt_toolkit.layout.controls import UIContent

    def h(text, width):
        return UIContent(get_line=lambda i: [("", text)], line_count=1).get_height_for_line(0, width, None)

    return h("\x01\x01\x01", 2) == 3, h("a\u4e16a", 2) == 3


def _probe_mouse_region():
    """Is the window's mouse handler installed for the whole body when there is a LEFT margin?
    (`x_max = xpos + width - total_margin_width` also subtracts the left margins: the rightmost
    `left margin width` columns of the body get no handler; proposed fix C11-mouse-region.)"""
    import asyncio

    from prompt_toolkit.application import Application
    from prompt_toolkit.application.current import set_app
    from prompt_toolkit.buffer import Buffer
    from prompt_toolkit.input import DummyInput
    from prompt_toolkit.layout import Layout
    from prompt_toolkit.layout.containers import Window
    from prompt_toolkit.layout.controls import BufferControl
    from prompt_toolkit.layout.margins import NumberedMargin
    from prompt_toolkit.layout.mouse_handlers import MouseHandlers
    from prompt_toolkit.layout.screen import Screen, WritePosition
    from prompt_toolkit.output import DummyOutput

    res = []

    async def go():
        win = Window(BufferControl(Buffer()), left_margins=[NumberedMargin()])
        app = Application(layout=Layout(win), input=DummyInput(), output=DummyOutput())
        with set_app(app):
            mh = MouseHandlers()
            win.write_to_screen(Screen(), mh, WritePosition(0, 0, 10, 1), "", False, None)
            res.append(mh.mouse_handlers[0][9].__name__ != "dummy_callback")

    asyncio.run(go())
    return bool(res and res[0])


def _source_constants():
    """Literal constants the model mirrors, read from the SOURCE TEXT of the current tree (ast):
    the "infinite" height of UIContent.get_height_for_line (`10**8`, all occurrences must agree) and
    NumberedMargin.get_width for a ladder of line counts (behavioural: max(3, len(str(n)) + 1))."""
    import ast
    import inspect

    from prompt_toolkit.layout.controls import UIContent
    from prompt_toolkit.layout.margins import NumberedMargin

    src = inspect.getsource(UIContent.get_height_for_line)
    tree = ast.parse("class _X:\n" + src if src.startswith("    ") else src)
    pows = set()
    for node in ast.walk(tree):
        if isinstance(node, ast.BinOp) and isinstance(node.op, ast.Pow) and \
                isinstance(node.left, ast.Constant) and isinstance(node.right, ast.Constant):
            pows.add(node.left.value ** node.right.value)
    big = pows.pop() if len(pows) == 1 else 0
    samples = []
    for n in (0, 1, 9, 10, 11, 99, 100, 101, 999, 1000, 9999, 10000, 123456):
        w = NumberedMargin().get_width(lambda n=n: UIContent(line_count=n))
        samples.append((n, int(w)))
    return big, samples


def generate() -> None:
    try:
        from prompt_toolkit.layout.screen import Char
        from prompt_toolkit.utils import get_cwidth

        wr = _width_ranges()
        zero = [(a, b) for a, b, w in wr if w == 0]
        two = [(a, b) for a, b, w in wr if w == 2]
        other = [(a, b) for a, b, w in wr if w not in (0, 2)]
        dm = sorted((ord(k), [ord(x) for x in v]) for k, v in Char.display_mappings.items() if len(k) == 1)
        disp_measure, exact_height = _probe_measuring()
    except Exception:  # broken tree: keep the model compilable, the correspondence reports it
        zero, two, other, dm = [], [], [], []
        disp_measure, exact_height = False, False
    try:
        mouse_fixed = _probe_mouse_region()
    except Exception:
        mouse_fixed = False
    try:
        big, mw_samples = _source_constants()
    except Exception:
        big, mw_samples = 0, []
    body = "namespace Ptk.Gen.C11\n\n"
    body += "/-- the sub-ranges the round-1 table was scanned on (half open; kept for the agreement layer) -/\n"
    body += "def scanned : List (Nat × Nat) := [" + ", ".join(f"({a}, {b})" for a, b in SCAN) + "]\n\n"
    body += "/-- the width tables below cover this range of code points completely (half open) -/\n"
    body += "def scannedAll : List (Nat × Nat) := [" + ", ".join(f"({a}, {b})" for a, b in ALL) + "]\n\n"
    body += "/-- inclusive ranges with `get_cwidth(c) = 0` -/\n"
    body += "def zeroWidthRanges : List (Nat × Nat) := " + G.lranges(zero) + "\n\n"
    body += "/-- inclusive ranges with `get_cwidth(c) = 2` -/\n"
    body += "def wideRanges : List (Nat × Nat) := " + G.lranges(two) + "\n\n"
    body += "/-- inclusive ranges with any other width (expected empty) -/\n"
    body += "def otherWidthRanges : List (Nat × Nat) := " + G.lranges(other) + "\n\n"
    body += "/-- `Char.display_mappings` as (code point, displayed code points) -/\n"
    body += "def displayMappings : List (Nat × List Nat) := [" + ", ".join(
        f"({k}, [{', '.join(str(x) for x in v)}])" for k, v in dm) + "]\n\n"
    body += "/-- probe: the scroll code measures control characters as they are drawn (see gen_c11.py) -/\n"
    body += f"def measuresDisplayWidth : Bool := {'true' if disp_measure else 'false'}\n\n"
    body += "/-- probe: get_height_for_line wraps lines with non-1-column cells character by character -/\n"
    body += f"def exactWrappedHeight : Bool := {'true' if exact_height else 'false'}\n\n"
    body += "/-- probe: the mouse handler covers the whole body also with a left margin (fix C11-mouse-region) -/\n"
    body += f"def mouseRegionFixed : Bool := {'true' if mouse_fixed else 'false'}\n\n"
    body += "/-- the 'infinite' height literal of UIContent.get_height_for_line (0 = not found / ambiguous) -/\n"
    body += f"def heightInfinite : Nat := {big}\n\n"
    body += "/-- (line_count, NumberedMargin.get_width) samples -/\n"
    body += "def marginWidthSamples : List (Nat × Nat) := [" + ", ".join(f"({a}, {b})" for a, b in mw_samples) + "]\n\n"
    body += "def inRanges (rs : List (Nat × Nat)) (c : Char) : Bool := rs.any fun (a, b) => a ≤ c.toNat && c.toNat ≤ b\n\n"
    body += "/-- `utils.get_cwidth` of a one-character string -/\n"
    body += "def rawWidth (c : Char) : Nat := if inRanges zeroWidthRanges c then 0 else if inRanges wideRanges c then 2 else 1\n\n"
    body += "/-- what `Char(c).char` is -/\n"
    body += "def display (c : Char) : List Char := match displayMappings.find? (fun p => p.1 == c.toNat) with\n"
    body += "  | some p => p.2.map Char.ofNat\n  | none => [c]\n\n"
    body += "end Ptk.Gen.C11\n"
    G.write("C11.lean", body)


if __name__ == "__main__":
    generate()
