#!/venv/bin/python
"""
C17 — translator for data: re-extracts from the CURRENT tree, for the fourth layer of the C17 model
(`Ptk.Model.C17Paste`: the byte parser's bracketed-paste mode under chunked reads, in front of the
accept boundary), and writes lean/Ptk/Gen/C17.lean:

  * input/ansi_escape_sequences.py : ANSI_SEQUENCES, every key mapped to the key code the C17
    protocol uses (see KEY_CODES below; keys the scripts never use are `unknown`, the paste start
    is `pasteCode`);
  * input/vt100_parser.py : the literal `end_mark` of `Vt100Parser.feed` (taken from the AST), the
    four regex pattern strings + flags (pattern pins);
  * input/posix_utils.py : the default `count` of `PosixStdinReader.read` (how much one read returns
    at most; the model's theorems hold for every read size, the harness places paste end markers
    across this boundary);
  * application.py : the DEFAULT `ttimeoutlen` / `timeoutlen` of an `Application()` in milliseconds
    (pinned in Ptk/Props/C17Flush.lean: the flush-timer theorem is stated for the regenerated default);
  * the running interpreter : the code point ranges matched by regex `\\d`.
"""
from __future__ import annotations

import ast
import inspect
import os
import sys

HERE = os.path.dirname(os.path.abspath(__file__))
sys.path.insert(0, HERE)
import gen_tables as G  # noqa: E402  (puts VERIF_REPO/src first on sys.path)

BASE = 0x110000
UNKNOWN = BASE + 999
PASTE_CODE = -100            # `Keys.BracketedPaste` in the sequence table: switches to paste mode
PASTE_BASE = 0x200000        # key code of a delivered paste = PASTE_BASE + enc_text(data)
ENC_BASE = 0x110001


def key_codes():
    """Keys member -> key code of the C17 line protocol"""
    from prompt_toolkit.keys import Keys

    return {
        Keys.ControlM: -1, Keys.ControlC: -2, Keys.CPRResponse: -3, Keys.ControlJ: -4,
        Keys.ControlH: BASE + 0, Keys.Delete: BASE + 1, Keys.Left: BASE + 2, Keys.Right: BASE + 3,
        Keys.Home: BASE + 4, Keys.End: BASE + 5, Keys.ControlK: BASE + 6, Keys.ControlU: BASE + 7,
        Keys.ControlA: BASE + 8, Keys.ControlE: BASE + 9, Keys.ControlB: BASE + 10, Keys.ControlF: BASE + 11,
        Keys.Escape: BASE + 12, Keys.ControlX: BASE + 13, Keys.ControlAt: BASE + 14,
        Keys.ControlD: BASE + 15,
    }


def enc_text(s: str) -> int:
    """the injective numbering of texts of Ptk.C17.encText"""
    n = 0
    for c in reversed(s):
        n = (ord(c) + 1) + ENC_BASE * n
    return n


def _end_mark_literal(P) -> str:
    """the string assigned to `end_mark` inside Vt100Parser.feed"""
    src = inspect.getsource(P.Vt100Parser.feed)
    tree = ast.parse("class _X:\n" + src if src.startswith("    ") else src)
    for node in ast.walk(tree):
        if isinstance(node, ast.Assign) and len(node.targets) == 1 and isinstance(node.targets[0], ast.Name) \
                and node.targets[0].id == "end_mark" and isinstance(node.value, ast.Constant) \
                and isinstance(node.value.value, str):
            return node.value.value
    return ""


def generate() -> None:
    import re

    try:
        from prompt_toolkit.input import vt100_parser as P
        from prompt_toolkit.input.ansi_escape_sequences import ANSI_SEQUENCES
        from prompt_toolkit.input.posix_utils import PosixStdinReader
        from prompt_toolkit.keys import Keys

        codes = key_codes()

        def code_list(v):
            if isinstance(v, tuple):
                return [c for x in v for c in code_list(x)]
            if v == Keys.BracketedPaste:
                return [PASTE_CODE]
            if isinstance(v, Keys):
                return [codes.get(v, UNKNOWN)]
            if isinstance(v, str) and len(v) == 1:
                return [ord(v)]
            return [UNKNOWN]

        rows = []
        for k, v in ANSI_SEQUENCES.items():
            if isinstance(k, str):
                rows.append((k, code_list(v)))
        end_mark = _end_mark_literal(P)
        pats = []
        for nm, attr in [("cprRe", "_cpr_response_re"), ("mouseRe", "_mouse_event_re"),
                         ("cprPrefixRe", "_cpr_response_prefix_re"), ("mousePrefixRe", "_mouse_event_prefix_re")]:
            r = getattr(P, attr)
            pats.append((nm, attr, r.pattern, int(r.flags)))
        try:
            read_count = int(inspect.signature(PosixStdinReader.read).parameters["count"].default)
        except Exception:  # noqa
            read_count = 0
    except Exception:  # broken tree: keep the model compilable, the correspondence reports it
        rows, end_mark, pats, read_count = [], "", [], 0
    # the DEFAULT flush timers of an Application (seconds -> milliseconds; 0 = None / unreadable)
    try:
        from prompt_toolkit.application import Application
        from prompt_toolkit.input import DummyInput
        from prompt_toolkit.output import DummyOutput

        app = Application(input=DummyInput(), output=DummyOutput())
        tt_ms = 0 if app.ttimeoutlen is None else int(round(float(app.ttimeoutlen) * 1000))
        t_ms = 0 if app.timeoutlen is None else int(round(float(app.timeoutlen) * 1000))
    except Exception:  # noqa
        tt_ms, t_ms = 0, 0

    dg = re.compile(r"\d")
    body = "namespace Ptk.Gen.C17\n\n"
    body += "/-- `ANSI_SEQUENCES` in dict order: (sequence as code points, key codes of the C17 protocol;\n"
    body += "    a tuple value = several codes; -100 = `Keys.BracketedPaste`) -/\n"
    body += "def seqTable : List (List Char × List Int) := [\n"
    body += ",\n".join("  (" + G.ltext(k) + ", [" + ", ".join(str(c) for c in v) + "])" for k, v in rows)
    body += "\n]\n\n"
    body += "/-- the literal `end_mark` in `Vt100Parser.feed` -/\n"
    body += "def endMarkSrc : List Char := " + G.ltext(end_mark) + "\n\n"
    body += "/-- default `count` of `PosixStdinReader.read` -/\n"
    body += f"def readCount : Nat := {read_count}\n\n"
    body += "/-- `Application().ttimeoutlen` in milliseconds: how long `auto_flush_input` waits after a read before\n"
    body += "    the parser gives up on an incomplete escape sequence -/\n"
    body += f"def ttimeoutlenMs : Nat := {tt_ms}\n\n"
    body += "/-- `Application().timeoutlen` in milliseconds: the key processor's flush timer (0 = None) -/\n"
    body += f"def timeoutlenMs : Nat := {t_ms}\n\n"
    for nm, attr, pat, flags in pats:
        body += f"/-- `{attr}.pattern` / `.flags` -/\n"
        body += f"def {nm} : String := " + G.lstr(pat) + "\n"
        body += f"def {nm}Flags : Nat := {flags}\n"
    if not pats:
        for nm in ("cprRe", "mouseRe", "cprPrefixRe", "mousePrefixRe"):
            body += f"def {nm} : String := \"\"\ndef {nm}Flags : Nat := 0\n"
    body += "\n/-- inclusive code point ranges matched by regex `\\d` (str pattern) -/\n"
    body += "def reDigitRanges : List (Nat × Nat) := " + G.lranges(G.ranges(lambda c: dg.match(c) is not None)) + "\n"
    body += "def reDigit (c : Char) : Bool := reDigitRanges.any fun (a, b) => a ≤ c.toNat && c.toNat ≤ b\n"
    body += "\nend Ptk.Gen.C17\n"
    G.write("C17.lean", body)


if __name__ == "__main__":
    generate()
