#!/venv/bin/python
"""Regenerate MANIFEST.json from the plugins present in harness/ (cXX.py with LEVEL_TEXT)."""
import importlib, json, os, sys
here = os.path.dirname(os.path.abspath(__file__))
sys.path.insert(0, here)
ROOT = os.path.dirname(here)
props = [json.loads(l) for l in open(os.path.join(ROOT, "properties.jsonl"))]
NA_REASONS = {}
p = os.path.join(ROOT, "not_applicable.json")
if os.path.exists(p):
    NA_REASONS = json.load(open(p))
checks, claimed, na = [], [], []
# properties whose check the coordinator has verified (green on the unchanged tree, reviewed)
READY = set(json.load(open(os.path.join(ROOT, "ready.json"))))
for pr in props:
    pid = pr["id"]
    f = os.path.join(here, pid.lower() + ".py")
    mod = None
    if os.path.exists(f) and pid in READY:
        mod = importlib.import_module(pid.lower())
    if pid not in READY:
        mod = None
    if mod is None or not getattr(mod, "LEVEL_TEXT", None) or getattr(mod, "NOT_READY", False):
        na.append({"property_id": pid, "reason": NA_REASONS.get(pid, "check not built yet (work in progress; see DESIGN.md §7 for the plan)")})
        continue
    claimed.append(pid)
    checks.append({
        "property_id": pid,
        "quick_cmd": f"./check {pid} --tier quick",
        "thorough_cmd": f"./check {pid} --tier thorough",
        "evidence_file": f"evidence/{pid}.json",
        "replay_cmd_template": f"./check {pid} --replay {{path}}",
        "engine": "lean-proof+correspondence",
        "level_claimed": {"category": "proof", "text": mod.LEVEL_TEXT, "design_ref": f"DESIGN.md §7 {pid}"},
        "level_note": mod.LEVEL_NOTE,
        "technique": getattr(mod, "TECHNIQUE", "Lean 4 proof over hand-written executable model + differential correspondence with the real code"),
    })
m = {
    "version": 1,
    "setup_cmd": "/venv/bin/python harness/gen_tables.py && cd lean && (lake build || true)",
    "hooks": {"guard": "PROMPT_TOOLKIT_VERIF",
              "enable": "no source hooks: the harness drives the real code in-process (subclassing / gating from the harness side); ./check exports the variable for forward compatibility",
              "baseline_off_cmd": "cd /repo && /venv/bin/python -m pytest -ra -q -p no:cacheprovider --timeout=900 --continue-on-collection-errors",
              "source_commits": [], "add_only": True},
    "engines": [{"name": "lean-proof+correspondence", "path": "check", "serves_properties": claimed,
                 "kind_free_text": "Lean 4 theorems about hand-written executable models (lean/Ptk) + tables regenerated from /repo (harness/gen_tables.py) + differential correspondence and property oracle against the real code (harness/)"}],
    "checks": checks,
    "notes": "see DESIGN.md; known_findings.json lists fixed/known defects",
    "not_applicable": na,
}
json.dump(m, open(os.path.join(ROOT, "MANIFEST.json"), "w"), indent=1)
print("claimed:", claimed)
