#!/venv/bin/python
"""
Run the checks against the seeded breaking changes kept under /verif/seeded/<id>/.

  harness/seeded.py [--tier quick] [--only ID ...] [--validate]

For every seeded/<id>/{patch.diff, demo.py, meta.json}: a scratch worktree of /repo HEAD is created
outside /repo and /verif, the patch applied there, `VERIF_REPO=<worktree> ./check <property>` is run
(the harness then imports prompt_toolkit from that tree and regenerates its tables from it), the
outcome is recorded in seeded/RESULTS.json, and the worktree is removed.  --validate additionally
re-confirms the seed itself: the repo test-suite passes with the patch, demo.py exits 1 with the
patch and 0 without.
(Running against a worktree instead of `git -C /repo apply` keeps /repo untouched while other
work is going on; `--in-repo` applies to /repo itself and undoes it straight afterwards.)
"""
import argparse, json, os, subprocess, sys, time

ROOT = os.path.dirname(os.path.dirname(os.path.abspath(__file__)))
SEEDED = os.path.join(ROOT, "seeded")
PY = "/venv/bin/python"


def sh(cmd, **kw):
    return subprocess.run(cmd, shell=True, capture_output=True, text=True, **kw)


def main():
    ap = argparse.ArgumentParser()
    ap.add_argument("--tier", default="quick")
    ap.add_argument("--only", nargs="*")
    ap.add_argument("--validate", action="store_true")
    ap.add_argument("--in-repo", action="store_true")
    ap.add_argument("--results", help="write results to this file instead of seeded/RESULTS.json")
    args = ap.parse_args()
    results_path = args.results or os.path.join(SEEDED, "RESULTS.json")
    results = json.load(open(results_path)) if os.path.exists(results_path) else {}
    ids = sorted(d for d in os.listdir(SEEDED) if os.path.isfile(os.path.join(SEEDED, d, "patch.diff")))
    if args.only:
        ids = [i for i in ids if i in args.only or i.split("-")[0] in args.only]
    for sid in ids:
        d = os.path.join(SEEDED, sid)
        meta = json.load(open(os.path.join(d, "meta.json")))
        prop = meta["property"]
        wt = f"/tmp/seedrun-{sid}-{os.getpid()}"
        rec = {"property": prop, "tier": args.tier}
        try:
            if args.in_repo:
                tree = "/repo"
                r = sh(f"git -C /repo apply {d}/patch.diff")
            else:
                tree = wt
                sh(f"git -C /repo worktree add -q --detach {wt} HEAD")
                r = sh(f"git -C {wt} apply {d}/patch.diff")
            if r.returncode != 0:
                rec["error"] = "patch does not apply: " + r.stderr[-300:]
                results[sid] = rec
                continue
            env = dict(os.environ, VERIF_REPO=tree, PYTHONPATH=f"{tree}/src")
            if args.validate:
                t = sh(f"cd {tree} && {PY} -m pytest -q -p no:cacheprovider -x 2>&1 | tail -1", env=env, timeout=900)
                rec["suite_with_patch"] = t.stdout.strip()[-120:]
                if os.path.exists(os.path.join(d, "demo.py")):
                    dm = sh(f"timeout 120 {PY} {d}/demo.py", env=env)
                    rec["demo_with_patch_rc"] = dm.returncode
                    env0 = dict(os.environ, PYTHONPATH="/repo/src") if not args.in_repo else None
                    if env0:
                        dm0 = sh(f"timeout 120 {PY} {d}/demo.py", env=env0)
                        rec["demo_without_patch_rc"] = dm0.returncode
            t0 = time.time()
            c = sh(f"cd {ROOT} && ./check {prop} --tier {args.tier}",
                   env=dict(os.environ, VERIF_REPO=tree, VERIF_EVIDENCE_DIR=os.path.join(ROOT, ".work", "seeded-evidence")),
                   timeout=3600)
            rec["check_rc"] = c.returncode
            rec["wall_s"] = round(time.time() - t0, 1)
            vl = [l for l in c.stdout.splitlines() if l.startswith("VIOLATION")]
            rec["violation_line"] = vl[0] if vl else None
            rec["caught"] = c.returncode == 1 and bool(vl)
            rec["with_failing_input"] = bool(vl) and "no-failing-input-found" not in vl[0]
            rec["summary"] = c.stdout.strip().splitlines()[-1] if c.stdout.strip() else c.stderr[-200:]
        finally:
            if args.in_repo:
                sh("git -C /repo checkout -- .")
            else:
                sh(f"git -C /repo worktree remove --force {wt}")
        results[sid] = rec
        print(sid, json.dumps(rec))
        with open(results_path, "w") as f:
            json.dump(results, f, indent=1, sort_keys=True)
    # regenerate tables from the real tree again
    sh(f"{PY} {ROOT}/harness/gen_tables.py", env={k: v for k, v in os.environ.items() if k != "VERIF_REPO"})


if __name__ == "__main__":
    main()
