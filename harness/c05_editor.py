"""
C05 support: drive the real line editor key by key with a traced default/search Buffer.

(Adapted from harness/editor.py: history is really loaded into the buffer, a completer is
installed, the two Buffers are switched to a tracing subclass that logs every call of a
state-writing primitive, and Application.exit is observed.)
"""
from __future__ import annotations

import asyncio
import contextlib
import os

from prompt_toolkit import PromptSession
from prompt_toolkit.application.current import set_app
from prompt_toolkit.auto_suggest import AutoSuggestFromHistory
from prompt_toolkit.buffer import Buffer, EditReadOnlyBuffer
from prompt_toolkit.clipboard import ClipboardData, InMemoryClipboard
from prompt_toolkit.completion import WordCompleter
from prompt_toolkit.document import Document
from prompt_toolkit.enums import EditingMode
from prompt_toolkit.filters import Condition
from prompt_toolkit.history import InMemoryHistory
from prompt_toolkit.input import DummyInput
from prompt_toolkit.input.ansi_escape_sequences import REVERSE_ANSI_SEQUENCES
from prompt_toolkit.input.vt100_parser import Vt100Parser
from prompt_toolkit.key_binding.key_processor import KeyPress, _Flush
from prompt_toolkit.keys import KEY_ALIASES, Keys
from prompt_toolkit.output import DummyOutput
from prompt_toolkit.selection import SelectionState, SelectionType
from prompt_toolkit.validation import ValidationError, Validator

# The default key bindings are stateless (their filters look at `get_app()`), but building them costs
# ~16 ms per Application.  Share one instance per process: same handlers, same filters.
import prompt_toolkit.application.application as _appmod

_orig_load = _appmod.load_key_bindings
_orig_load_page = _appmod.load_page_navigation_bindings
_shared = {}


def _load_shared():
    if "kb" not in _shared:
        _shared["kb"] = _orig_load()
    return _shared["kb"]


def _load_page_shared():
    if "page" not in _shared:
        _shared["page"] = _orig_load_page()
    return _shared["page"]


if os.environ.get("C05_FRESH_BINDINGS") != "1":
    _appmod.load_key_bindings = _load_shared
    _appmod.load_page_navigation_bindings = _load_page_shared

class RejectX(Validator):
    """rejects every text containing 'x'; the reported error position is deliberately often outside the text"""

    def validate(self, document):
        i = document.text.find("x")
        if i >= 0:
            raise ValidationError(cursor_position=2 * i + 3 if i % 2 else -1, message="no x")


SEL_TYPES = {SelectionType.CHARACTERS: 0, SelectionType.LINES: 1, SelectionType.BLOCK: 2}


# ------------------------------------------------------------------ key tokens
def _parse(data: str):
    out = []
    p = Vt100Parser(out.append)
    p.feed(data)
    p.flush()
    return out


_KEY_CACHE: dict = {}


def key_presses(tok: str):
    """key token -> list of KeyPress (through the real VT100 parser when the key has a terminal
    encoding).  Tokens: one printable character; a key name ('c-a', 'escape', 'left', ...);
    '<flush>' (the timeout); '<paste:TEXT>' (bracketed paste)."""
    if tok in _KEY_CACHE:
        return _KEY_CACHE[tok]
    if tok == "<flush>":
        r = [_Flush]
    elif tok.startswith("<paste:"):
        r = [KeyPress(Keys.BracketedPaste, tok[7:-1])]
    elif len(tok) == 1:
        r = _parse(tok)
        if len(r) != 1:  # never for printable characters
            r = [KeyPress(tok, tok)]
    else:
        key = Keys(KEY_ALIASES.get(tok, tok))
        seq = REVERSE_ANSI_SEQUENCES.get(key)
        if seq is not None:
            r = _parse(seq)
            if len(r) != 1 or r[0].key != key:
                r = [KeyPress(key, seq)]
        else:
            r = [KeyPress(key, "")]
    _KEY_CACHE[tok] = r
    return r


# ------------------------------------------------------------------ tracing
class TracedSel(SelectionState):
    """SelectionState whose field writes (the Vi text objects write the anchor directly) are logged."""
    _owner = None

    def __setattr__(self, name, value):
        object.__setattr__(self, name, value)
        o = self.__dict__.get("_owner")
        if o is not None and name in ("original_cursor_position", "type") and o.selection_state is self:
            if name == "original_cursor_position":
                object.__setattr__(o, "_tr_anchor", o._tr_anchor + 1)   # (skeleton: HData.anchorWritten)
            o._log_raw("selw", o._sel_tuple())


class TracedBuffer(Buffer):
    """Logs every state-writing primitive of Buffer (outermost call only) with the state after it.

    primitives: cursor_position setter, text setter, set_document, working_index setter, reset,
    save_to_undo_stack, undo, redo, and the attribute writes selection_state / multiple_cursor_positions.
    """
    _tr_depth = 0
    _tr_log = None  # list of (op tuple, outcome, state tuple)
    _tr_on = False
    _tr_id = 0
    _tr_tc = 0      # number of `_text_changed()` / `reset()` calls (each clears the selection)
    _tr_anchor = 0  # number of direct writes to `selection_state.original_cursor_position`

    # -- helpers
    def _sel_tuple(self):
        s = self.__dict__.get("selection_state")
        if s is None:
            return None
        return (s.original_cursor_position, SEL_TYPES.get(s.type, 9))

    def _state(self):
        d = self.__dict__
        wl = d["_working_lines"]
        idx = d["_Buffer__working_index"]
        try:
            text = wl[idx]
        except IndexError:
            text = None
        us, rs = d["_undo_stack"], d["_redo_stack"]
        return (text, d["_Buffer__cursor_position"], idx, len(wl), self._sel_tuple(),
                tuple(d.get("multiple_cursor_positions", ())), len(us), len(rs),
                us[-1] if us else None, rs[-1] if rs else None, d.get("history_search_text"))

    def _log_raw(self, name, args):
        if self._tr_on and self._tr_depth == 0:
            self._tr_log.append((self._tr_id, (name, args), "ok", self._state()))

    def _prim(self, name, args, fn):
        if not self._tr_on or self._tr_depth > 0:
            return fn()
        self._tr_depth += 1
        outcome = "ok"
        try:
            return fn()
        except EditReadOnlyBuffer:
            outcome = "ro"
            raise
        except BaseException as e:  # noqa
            outcome = "err:" + type(e).__name__
            raise
        finally:
            self._tr_depth -= 1
            self._tr_log.append((self._tr_id, (name, args), outcome, self._state()))

    # -- primitives
    @property
    def text(self):
        return Buffer.text.fget(self)

    @text.setter
    def text(self, value):
        self._prim("text", (value,), lambda: Buffer.text.fset(self, value))

    @property
    def cursor_position(self):
        return Buffer.cursor_position.fget(self)

    @cursor_position.setter
    def cursor_position(self, value):
        self._prim("cur", (value,), lambda: Buffer.cursor_position.fset(self, value))

    @property
    def working_index(self):
        return Buffer.working_index.fget(self)

    @working_index.setter
    def working_index(self, value):
        self._prim("widx", (value,), lambda: Buffer.working_index.fset(self, value))

    def set_document(self, value, bypass_readonly=False):
        return self._prim("doc", (value.text, value.cursor_position, bool(bypass_readonly)),
                          lambda: Buffer.set_document(self, value, bypass_readonly))

    def _text_changed(self):
        object.__setattr__(self, "_tr_tc", self._tr_tc + 1)
        return Buffer._text_changed(self)

    def reset(self, document=None, append_to_history=False):
        object.__setattr__(self, "_tr_tc", self._tr_tc + 1)
        d = document or Document()
        return self._prim("reset", (d.text, d.cursor_position),
                          lambda: Buffer.reset(self, document, append_to_history))

    def save_to_undo_stack(self, clear_redo_stack=True):
        return self._prim("save", (bool(clear_redo_stack),),
                          lambda: Buffer.save_to_undo_stack(self, clear_redo_stack))

    def undo(self):
        return self._prim("undo", (), lambda: Buffer.undo(self))

    def redo(self):
        return self._prim("redo", (), lambda: Buffer.redo(self))

    def __setattr__(self, name, value):
        if name == "selection_state":
            if value is not None and type(value) is SelectionState:
                value.__class__ = TracedSel
                object.__setattr__(value, "_owner", self)
            object.__setattr__(self, name, value)
            if self._tr_on and self._tr_depth == 0:
                self._tr_log.append((self._tr_id, ("sel", (self._sel_tuple(),)), "ok", self._state()))
            return
        if name == "multiple_cursor_positions":
            object.__setattr__(self, name, value)
            if self._tr_on and self._tr_depth == 0:
                self._tr_log.append((self._tr_id, ("multi", (tuple(value),)), "ok", self._state()))
            return
        if name == "history_search_text":
            object.__setattr__(self, name, value)
            if self._tr_on and self._tr_depth == 0:
                self._tr_log.append((self._tr_id, ("hs", (value,)), "ok", self._state()))
            return
        if name in ("_Buffer__cursor_position", "_Buffer__working_index", "_working_lines",
                    "_undo_stack", "_redo_stack"):
            object.__setattr__(self, name, value)
            if self._tr_on and self._tr_depth == 0:
                # a write to private state outside every primitive: never expected
                self._tr_log.append((self._tr_id, ("private", (name,)), "ok", self._state()))
            return
        object.__setattr__(self, name, value)


def trace(buf: Buffer, log: list, bid: int) -> None:
    buf.__class__ = TracedBuffer
    object.__setattr__(buf, "_tr_log", log)
    object.__setattr__(buf, "_tr_id", bid)
    object.__setattr__(buf, "_tr_on", True)


# ------------------------------------------------------------------ the editor
WORDS = ["alpha", "alps", "beta", "bet", "gamma delta", "世界", "a.b"]


class Editor:
    def __init__(self, text="", cursor=None, vi=False, multiline=False, history=(), read_only=False,
                 clip=None, clip_type="CHARACTERS", completer=True, traced=True, hs=False, sug=False,
                 val=False):
        cb = InMemoryClipboard()
        if clip is not None:
            cb.set_data(ClipboardData(clip, SelectionType[clip_type]))
        self.session = PromptSession(
            input=DummyInput(), output=DummyOutput(),
            editing_mode=EditingMode.VI if vi else EditingMode.EMACS,
            multiline=multiline, history=InMemoryHistory(list(history)),
            clipboard=cb, completer=WordCompleter(WORDS) if completer else None,
            enable_history_search=bool(hs),
            auto_suggest=AutoSuggestFromHistory() if sug else None,
            validator=RejectX() if val else None)
        self.app = self.session.app
        self.app.timeoutlen = None
        self.app.ttimeoutlen = None
        self.buffer = self.session.default_buffer
        self.search_buffer = self.session.search_buffer
        self.read_only = read_only
        self.result = None
        self.exc = None
        self.done = False
        self.exit_text = None     # default-buffer text at the moment exit(result=...) is called
        self.bg_errors = []
        self.app.future = None
        self._init = (text, len(text) if cursor is None else cursor)
        self.traced = traced
        self.log = []
        self.loop = None


@contextlib.contextmanager
def editor(**kw):
    loop = asyncio.new_event_loop()
    try:
        asyncio.set_event_loop(loop)

        async def mk():
            return Editor(**kw)

        ed = loop.run_until_complete(mk())
        ed.loop = loop
        fut = loop.create_future()
        ed.app.future = fut

        def _done(f):
            ed.done = True
            try:
                ed.result = f.result()
            except BaseException as e:  # noqa
                ed.exc = e

        fut.add_done_callback(_done)
        ed.app._is_running = True

        def on_exc(lp, ctx):
            ed.bg_errors.append(repr(ctx.get("exception") or ctx.get("message")))

        loop.set_exception_handler(on_exc)

        orig_exit = ed.app.exit

        def exit_spy(*a, **k):
            if "result" in k or a:
                ed.exit_text = ed.buffer.text
            return orig_exit(*a, **k)

        ed.app.exit = exit_spy  # type: ignore

        with set_app(ed.app):
            text, cursor = ed._init

            async def setup():
                ed.buffer.reset(Document(text, cursor))
                ed.buffer.load_history_if_not_yet_loaded()
                for _ in range(200):
                    t = ed.buffer._load_history_task
                    if t is None or t.done():
                        break
                    await asyncio.sleep(0)

            loop.run_until_complete(setup())
            if ed.read_only:
                ed.buffer.read_only = Condition(lambda: True)  # type: ignore
            if ed.traced:
                trace(ed.buffer, ed.log, 0)
                trace(ed.search_buffer, ed.log, 1)

            def feed(tok):
                """process one key token; exceptions of the key processor propagate"""
                async def go():
                    kp = ed.app.key_processor
                    for k in key_presses(tok):
                        if ed.done:
                            break
                        kp.feed(k)
                        kp.process_keys()
                    for _ in range(4):
                        await asyncio.sleep(0)
                loop.run_until_complete(go())

            def feed_key(k):
                """process one KeyPress; exceptions of the key processor propagate"""
                async def go():
                    kp = ed.app.key_processor
                    kp.feed(k)
                    kp.process_keys()
                    for _ in range(4):
                        await asyncio.sleep(0)
                loop.run_until_complete(go())

            ed.feed = feed  # type: ignore
            ed.feed_key = feed_key  # type: ignore
            yield ed
    finally:
        try:
            pending = asyncio.all_tasks(loop)
            for t in pending:
                t.cancel()
            if pending:
                loop.run_until_complete(asyncio.gather(*pending, return_exceptions=True))
        except Exception:
            pass
        loop.close()
        asyncio.set_event_loop(None)
