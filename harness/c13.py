#!/venv/bin/python
"""C13 - persisted history: correspondence with Ptk.Model.C13 / C13Fixed / C13Mem + property oracle.

Kinds of cases
  file   : FileHistory instances on one real file (scratch dir under /verif/.work/c13):
           appends alternating between instances, History.load()/get_strings(),
           fresh-instance loads, load at EVERY truncation offset, torn write + recovery,
           raw (garbage) file contents, foreign lines appended between records
  codec  : str.encode('utf-8') / bytes.decode('utf-8', 'replace') vs the model's codec
  mem    : History base class on InMemoryHistory / DummyHistory: append, load, get_strings, and the inline
           load() generator stepped item by item with appends in between (model Hist)
  mw     : several writers on one file: the write() calls of the real FileHistory.store_string are recorded
           and interleaved in a prescribed order (model writeCalls / interleaveWrites)
  th     : ThreadedHistory WITHOUT the repair of F5 (the tree today) driven step by step under an explicit
           schedule (model TH / step).  The schedule is enforced from the harness side only (no source hooks):
           `prompt_toolkit.history.threading` is replaced, for the duration of one case, by a shim whose
           Lock / Event / Thread pause at the synchronisation points, and the inner History pauses inside
           load_history_strings.  After the schedule all threads run freely and a load() in progress must
           complete correctly.
  thx    : ThreadedHistory WITH the repair of F5 (model THF / stepF): appends, cancellation of load(), later
           load() calls, an inner history that raises.  Runs against the tree when its loader takes the
           snapshot inside the lock (gen_c13 probe), else against a module built from the tree's history.py +
           proposed_fixes/C13-threaded-append.diff.  In the first case `th` cases are translated to `thx`.
  thm    : the repaired code with two or three simultaneous load() calls, appends, cancellations, inner failure
           (model THm / stepM), same tree / tree + diff rule as thx
  th2    : two or three simultaneous load() calls (model THn); the loader thread also stops after every single
           event.set().  The model takes the flag Gen.C13.notifyCopies, which harness/gen_c13.py determines
           from the current tree by a behavioural probe.
"""
from __future__ import annotations

import asyncio
import itertools
import os
import shutil
import sys
import threading
from concurrent.futures import ThreadPoolExecutor

sys.path.insert(0, os.path.dirname(os.path.abspath(__file__)))
import core
from core import enc_str, enc_list

import gen_c13
import prompt_toolkit.history as H
from prompt_toolkit.history import DummyHistory, FileHistory, History, InMemoryHistory, ThreadedHistory

ID = "C13"
DRIVER = "drv_c13"
PROPS = ["Ptk.Props.C13", "Ptk.Props.C13Fixed", "Ptk.Props.C13FixedMulti", "Ptk.Props.C13Mem", "Ptk.Props.C13Foreign", "Ptk.Props.C13Wrap"]
ANCHORS = ["src/prompt_toolkit/history.py"]
# the functions of /repo whose bodies the Lean models follow line by line and the correspondence exercises
# (nested helpers - `in_executor`, `add`, `write` - are part of their parents)
MODELLED = {"src/prompt_toolkit/history.py": [
    "History.__init__", "History.load", "History.get_strings", "History.append_string",
    "ThreadedHistory.__init__", "ThreadedHistory.load", "ThreadedHistory._in_load_thread",
    "ThreadedHistory.append_string", "ThreadedHistory.load_history_strings", "ThreadedHistory.store_string",
    "InMemoryHistory.__init__", "InMemoryHistory.load_history_strings", "InMemoryHistory.store_string",
    "DummyHistory.load_history_strings", "DummyHistory.store_string", "DummyHistory.append_string",
    "FileHistory.load_history_strings", "FileHistory.store_string"]}
LEVEL_TEXT = ("Lean 4 theorems over executable models of history.py. (a) FileHistory byte format with a concrete UTF-8 "
              "encoder and CPython-compatible replacing decoder: load(store*(es)) = reverse(es) for all strings over "
              "all code points, truncation at every byte offset keeps every completed entry and adds at most one "
              "damaged newest entry, later appends re-frame correctly after a torn write or after arbitrary garbage, "
              "several caching instances on one file, complete lines that do not start with '+' (comments of other "
              "tools, blank lines, any text) anywhere between records are ignored, and several processes whose "
              "write() calls arrive in any order read back intact when a record is ONE write() (proposed hardening; "
              "for the per-line writes of the current code the merge of two entries is proved on a witness). "
              "(a') History base class with InMemoryHistory / DummyHistory: cache, get_strings order, appends before / "
              "after load for all operation sequences; the inline load() generator stepped item by item (exact over a "
              "copy; the duplicate produced by the current live-list iteration proved on a witness). "
              "(b) ThreadedHistory as transition systems at lock/event granularity. The code as it is, with the repair "
              "of F5 (append_string inserts, counts and stores inside the lock; call of the inner history + list reset "
              "+ first item inside ONE locked block; load() skips front insertions and yields them once at the end), "
              "for BOTH kinds of inner history - eager (reads its storage when load_history_strings() is called: "
              "FileHistory) and lazy (when its first item is requested: a generator): for EVERY interleaving - any "
              "number of concurrent append_string calls, cancelled load() calls, later load() calls, an inner history "
              "that raises - a completed call has yielded the history as of its call, newest first, followed by the entries "
              "appended meanwhile, each exactly once; the cache ends up exact; every append reaches the store once, in "
              "order; every call terminates (budget + no lost wake-up); the same safety statement for ANY NUMBER of "
              "simultaneous load() calls with appends, cancellations and inner failures at per-event.set() granularity; "
              "that the call stands inside the lock is a side condition re-decided on every run (gen_call_in_lock): "
              "with the call in front of the lock an eager inner history loses an appended entry (Lean witness "
              "hoisted_call_loses_entry), a lazy one does not. "
              "Code WITHOUT the repair (before fix 25d5ebc; kept as the model of F5): the "
              "same for every interleaving in which no append_string overlaps a load; the overlapping case is refuted "
              "on concrete schedules (known finding F5a-c). Several simultaneous load() calls at per-event.set() "
              "granularity (no append_string): safety, no lost wake-up, termination bound. Tied to the source on every "
              "run by generated behavioural flags (notify loop over a copy? append repair present? write() calls per "
              "record? inline iteration over a copy?), a differential correspondence (real files at every truncation "
              "offset, real threads under enforced schedules; the repaired model runs against the tree + the proposed "
              "diff until the tree itself has the repair, then against the tree) and the property oracle")
LEVEL_NOTE = ("trusted: Lean kernel, axioms propext/Classical.choice/Quot.sound only; hand-written models (validated by "
              "the correspondence, not proved equal to the Python); CPython bytes/str/codecs/file/asyncio semantics; one "
              "OS write per write() call on an append-mode file is contiguous; threaded parts are at atomic-step "
              "granularity (partial); the two kinds of inner history (storage read at the call / at the first item) "
              "are assumed to be the only ones")
TECHNIQUE = "Lean 4 proof over hand-written executable model + differential correspondence with the real code"
RULE = ("file: exhaustive entry lists over the alphabet {a,+,#,LF,CR,U+2028,NUL,U+1F600} (bounds per tier) and, shorter, "
        "over every character str.splitlines() breaks on {LF,CR,VT,FF,FS,GS,RS,NEL,U+2028,U+2029} plus {+,#,space,a,"
        "NUL,U+1F600}, entries of only '+' / only newlines / empty, foreign lines in front of, between and behind "
        "records - each with a fresh load and a load at every truncation offset; then seeded random op sequences "
        "(appends alternating between 4 instances, load/get_strings, foreign lines, cut at a random byte + further "
        "appends, raw garbage files); codec: boundary code points and random garbage bytes; mem: every sequence of "
        "append/load/get_strings/new generator/next item up to the tier's length on InMemoryHistory and DummyHistory; "
        "mw: two or three writers, every order of their write() calls up to the tier's length; th (tree without the "
        "repair) / thx (repaired code): every schedule of the loader / consumer / appender / cancel / inner-failure "
        "steps up to the tier's depth from several initial stores, then seeded random complete schedules; th2 (no "
        "appends) / thm (repaired code: appends, cancellations, inner failure): two or three simultaneous load() "
        "calls, the loader stopping after every event.set(): all schedules up to the tier's depth + random; after "
        "every th/thx/th2/thm schedule the threads run freely and every load() call in progress must "
        "complete with the right items. non-trivial = a file case with at least one non-empty entry or raw bytes, a "
        "codec case, a th/thx case in which the consumer takes at least one step, a th2/thm case with at least two load() "
        "calls, a mem case with an append or initial strings, a mw case in which two writers take turns")
EXHAUSTIVE = True
EXHAUSTIVE_SCOPE = {
    "quick": "file: 1 entry len<=3, 2 entries len<=1 over 8 symbols; 1 entry len<=2 and 2 entries of 1 char over the "
             "16-symbol line-separator alphabet; 10 kinds of foreign lines x 3 entries; raw files len<=3 over 9 byte "
             "symbols; every truncation offset of each; mem: all op sequences len<=4; mw: 2 writers x 4x4 entries, "
             "all orders of 6 write() calls, 3 writers all orders of 5; th / thx: ALL complete loader/consumer "
             "interleavings without appends for stores of 0 and 1 items (th, 2 items: all prefixes of length 12); all "
             "schedules with one or two concurrent appends up to depth 6-8 (the return of the appending thread as a "
             "step of its own: depth 6), with a cancellation + second load() up to depth 6, with a failure of the inner "
             "history up to depth 6-9; two simultaneous load() calls: all schedules up to depth 7 (per-event.set() "
             "granularity) + all interleavings of the final notify loop with a finishing consumer; with one append "
             "up to depth 6, with an append and a cancellation up to depth 4",
    "thorough": "file: 1 entry len<=4, 2 entries len<=2, 3 entries len<=1, raw files len<=4 over 9 byte symbols, the "
                "separator alphabet and foreign lines as in quick; every truncation offset of each; mem: all op "
                "sequences len<=5; mw: all orders of 7 write() calls; th: ALL complete interleavings without "
                "appends for stores of 0, 1 and 2 items (3 items: all prefixes of length 18; with a second load() for "
                "0-1 items), all schedules up to depth 12 with one concurrent append, depth 10 with two; thx: the same "
                "without appends, depth 11 with one append, depth 9 with two, depth 8-9 with cancellation / inner "
                "failure and a second load(), depth 8-9 with the return of the appending thread as a step of its own; "
                "two simultaneous load() calls: all schedules up to depth 10 for stores of 0 and 1 items; with appends "
                "/ cancellations / inner failure up to depth 6-7",
}
TRUSTED = ["harness/c13.py compares file bytes after every append, the loaded lists at every truncation offset, "
           "and (strs, loaded, append counter, yielded items, events, number of registered events, store, program "
           "counters) after every scheduled step",
           "harness/gen_c13.py: behavioural probes of the tree -> Gen/C13.lean (notify loops over a copy; F5 repair "
           "present; inner history called inside the lock; write() calls per record; inline load() over a copy)",
           "Ptk/Model/C13.lean, C13Fixed.lean, C13Mem.lean are hand translations of history.py (correspondence-checked)",
           "the schedule shim (replacement of `threading` inside history.py and the gated inner History) pauses "
           "threads only at synchronisation points and never while they hold the history's lock; it does not change "
           "what the code computes",
           "while the tree lacks the F5 repair, the repaired model is compared with a module built in memory from the "
           "tree's history.py + proposed_fixes/C13-threaded-append.diff (skipped when the diff does not apply)",
           "write() calls are observed by running the real store_string on a recording file object (buffer of 1 byte); "
           "the harness interleaves them in the order the case prescribes"]
ASSUMPTIONS = ["CPython: open(...,'ab').write appends contiguously; iteration over a binary file splits after 0x0A only",
               "bytes.decode('utf-8','replace') = the model's decoder (compared on garbage every run)",
               "str(datetime.now()) contains no newline (the correspondence injects the timestamp; the oracle uses the real clock)",
               "lone surrogates are outside the alphabet (str.encode raises; Lean Char cannot hold them)",
               "threaded parts: every code section between two synchronisation points (lock block, event.wait, each "
               "event.set, store_string) is atomic; an inner history looks at its storage EITHER when "
               "load_history_strings() is called (eager: FileHistory) OR when its first item is requested (lazy: "
               "InMemoryHistory, any generator over a snapshot) - both kinds are modelled - and not again later; a Python list "
               "iterator is an index into the live list; load()'s lock-free read of the append counter is equivalent "
               "to a read under the lock (CPython attribute reads are atomic; shown in the model comment)",
               "several processes: every write() call on the append-mode file is one contiguous OS write (the file "
               "object's buffer can only merge calls, which removes interleavings)"]
PARTIAL_SCOPE = ["ThreadedHistory: real preemption inside a step is not modelled; an inner history that re-reads its "
                 "storage lazily after its first item is not modelled",
                 "entries appended while a load() is in progress: repaired in the tree (fix 25d5ebc); the "
                 "all-interleavings theorems are about that code and need the generated side condition that the "
                 "inner history is called inside the locked block (gen_call_in_lock); a tree without the repair is "
                 "compared with the F5 model (`step`), whose theorems cover exactly the schedules without an overlap",
                 "several simultaneous load() calls together with append_string / cancellation / inner failure: SAFETY is "
                 "proved for the repaired code (THm); no-lost-wake-up and the termination bound are proved for several "
                 "calls without those (THn) and for one call at a time with all of them (THF), not for the combination",
                 "cancellation is driven on the real code while load() waits in one of its two run_in_executor awaits; "
                 "a close while it is suspended at `yield` is the same step in the model but is not driven",
                 "concurrent writers from different processes: at write()-call granularity only; interleaved partial "
                 "records are outside the statement of the property (appends 'alternating') - with the current "
                 "per-line writes two entries can merge (Lean witness; reproduced with two real processes and entries "
                 "> 8 KiB); hardening proposed_fixes/C13-store-single-write.diff",
                 "inline History.load() with an append between two of its items yields an item twice (live-list "
                 "iteration; Lean witness, compared with the model); outside the statement: the exactly-once clause "
                 "is about background loading"]

SCRATCH = os.path.join(core.WORK, "c13")
FIX_DIFF = os.path.join(core.ROOT, "proposed_fixes", "C13-threaded-append.diff")

# Which model of ThreadedHistory is compared with the tree?  The repaired one (`stepF`) as soon as the
# tree's loader thread takes the inner snapshot inside the lock (behavioural probe, see gen_c13.py) - a
# tree that has only a part of the repair is then compared with the full repair and fails; the model of
# the code with F5 (`step`) otherwise.
FIXED = gen_c13.probe_append_parts(H)["snapshot"]
# ... and is the inner load_history_strings() CALLED in front of that locked block (a regression: an inner
# history that reads its storage when called - FileHistory - then reads it outside the lock)?  The model
# follows the tree (Gen.C13.callHoisted); the theorems need `callHoisted = false` (gen_call_in_lock).
HOIST = bool(FIXED and gen_c13.probe_call_hoisted(H))
_HFIX = [None, False]


def fixed_module():
    """the history module WITH the repair of F5: the tree's own module when it has the repair,
    otherwise a module built from the tree's current history.py + proposed_fixes/C13-threaded-append.diff
    (None when the diff does not apply to the current source or the result does not behave as repaired;
    the `thx` cases are then not generated)"""
    if _HFIX[1]:
        return _HFIX[0]
    _HFIX[1] = True
    if FIXED:
        _HFIX[0] = H
        return H
    try:
        import subprocess
        import types

        src = os.path.join(core.REPO, "src", "prompt_toolkit", "history.py")
        os.makedirs(SCRATCH, exist_ok=True)
        outp = os.path.join(SCRATCH, "history_fixed_%d.py" % os.getpid())
        try:
            r = subprocess.run(["patch", "-s", "-f", "-o", outp, src, FIX_DIFF], capture_output=True, text=True,
                               timeout=60)
            if r.returncode != 0:
                return None
            text = open(outp, encoding="utf-8").read()
        finally:
            for junk in (outp, outp + ".rej", outp + ".orig"):
                if os.path.exists(junk):
                    os.unlink(junk)
        mod = types.ModuleType("prompt_toolkit._c13_history_with_proposed_fix")
        mod.__file__ = src + " + " + FIX_DIFF
        exec(compile(text, mod.__file__, "exec"), mod.__dict__)
        if not gen_c13.probe_append_fixed(mod):
            return None
        _HFIX[0] = mod
    except Exception:
        _HFIX[0] = None
    return _HFIX[0]

ALPHA = ["a", "+", "#", "\n", "\r", "\u2028", "\x00", "\U0001F600"]
# every character str.splitlines() breaks on, and the ones the format itself uses
SEP_ALPHA = ["\n", "\r", "\x0b", "\x0c", "\x1c", "\x1d", "\x1e", "\x85", "\u2028", "\u2029", "+", "#", " ", "a",
             "\x00", "\U0001F600"]
# complete lines that do not start with '+' (comments of other tools, blank lines, text, invalid UTF-8)
FOREIGN_LINES = [b"# written by another tool\n", b"\n", b"#\n", b"hello +x\n", b" +indented\n", b"\xff\xfe+\n",
                 b"\xc3\xa9+\n", b"#+\n", b"\r\n", b"\x00+\n"]
RAND_ALPHA = ["a", "b", "+", "+", "#", "\n", "\n", "\n", "\r", "\u2028", "\u2029", "\x85", "\x0b", "\x0c",
              "\x1c", "\x00", "\U0001F600", "\U0010FFFF", "\ud7ff", "\ue000", "\uffff", "\ufeff", "\ufffd",
              "\u00e9", "\u4e16", " ", "\t", "\x7f", "\x80", "\u07ff", "\u0800", "\U00010000", "\x1b"]
RAW_ALPHA = [0x0A, 0x2B, 0x23, 0x61, 0xE2, 0x80, 0xA8, 0xF0, 0xFF]
RAW_RAND = [0x0A, 0x0A, 0x2B, 0x2B, 0x23, 0x61, 0x20, 0x0D, 0x00, 0xC2, 0xC0, 0xC1, 0xE0, 0xE2, 0xED, 0xEF, 0xF0,
            0xF4, 0xF5, 0xFF, 0x80, 0x8F, 0x90, 0x9F, 0xA0, 0xA8, 0xBF, 0x7F]
TS_POOL = ["2026-09-30 03:13:04.179440", "2026-09-30 03:13:04", "1999-12-31 23:59:59.000001", "T"]


# ------------------------------------------------------------------ protocol helpers
def enc_bytes(b) -> str:
    return "b:" + ",".join(str(x) for x in b)


def enc_strs(l) -> str:
    return enc_list(l, enc_str)


# ------------------------------------------------------------------ real code: files
_dir = None


def scratch() -> str:
    global _dir
    d = os.path.join(SCRATCH, "p%d" % os.getpid())
    if _dir != d:
        os.makedirs(d, exist_ok=True)
        _dir = d
    return d


class _FixedClock:
    """stands in for the `datetime` module inside history.py during the correspondence: `datetime.now()`
    (also utcnow / today) returns the case's timestamp string; everything else is the real module"""

    def __init__(self):
        import datetime as real

        self.ts = "T"
        self._real = real
        outer = self

        class _dt(real.datetime):
            @classmethod
            def now(cls, tz=None):
                return outer.ts

            @classmethod
            def utcnow(cls):
                return outer.ts

            @classmethod
            def today(cls):
                return outer.ts

        self.datetime = _dt

    def __getattr__(self, name):
        return getattr(self._real, name)


def collect_load(h: History):
    async def go():
        return [x async for x in h.load()]

    return asyncio.run(go())


def safe_fresh_load(path):
    try:
        return enc_strs(list(FileHistory(path).load_history_strings()))
    except Exception as e:  # "loading never fails"
        return "err:" + type(e).__name__


def wrapped_threaded_load(inst):
    """[x async for x in ThreadedHistory(inst).load()] with real threads, nothing concurrent"""
    th = ThreadedHistory(inst)

    async def go():
        out = []

        async def inner():
            async for x in th.load():
                out.append(x)

        await asyncio.wait_for(inner(), timeout=30)
        return out

    try:
        return enc_strs(asyncio.run(go()))
    except (asyncio.TimeoutError, TimeoutError):
        return "err:timeout"
    except Exception as e:
        return "err:" + type(e).__name__


def read_bytes(path):
    if not os.path.exists(path):
        return b""
    with open(path, "rb") as f:
        return f.read()


def write_bytes(path, data):
    with open(path, "wb") as f:
        f.write(data)


def file_impl(case):
    d = scratch()
    path = os.path.join(d, "hist")
    tpath = os.path.join(d, "trunc")
    if os.path.exists(path):
        os.unlink(path)
    insts = {}

    def inst(i):
        if i not in insts:
            insts[i] = FileHistory(path)
        return insts[i]

    clock = _FixedClock()
    real_dt = H.datetime
    H.datetime = clock
    out = ["ok"]
    try:
        for op in case["ops"]:
            k = op[0]
            if k == "app":
                clock.ts = op[2]
                inst(op[1]).append_string(op[3])
                out.append(enc_bytes(read_bytes(path)))
            elif k == "load":
                out.append(enc_strs(collect_load(inst(op[1]))))
            elif k == "get":
                out.append(enc_strs(inst(op[1]).get_strings()))
            elif k == "tapp":
                # append through a ThreadedHistory wrapper around instance op[1] (wrapper not loaded)
                clock.ts = op[2]
                ThreadedHistory(inst(op[1])).append_string(op[3])
                out.append(enc_bytes(read_bytes(path)))
            elif k == "tload":
                # background-thread load through a wrapper around the (possibly already loaded) instance
                out.append(wrapped_threaded_load(inst(op[1])))
            elif k == "fresh":
                out.append(safe_fresh_load(path))
            elif k == "truncall":
                data = read_bytes(path)
                res = []
                write_bytes(tpath, data)
                for n in range(len(data), -1, -1):
                    os.truncate(tpath, n)
                    res.append(safe_fresh_load(tpath))
                out.append(" | ".join(res[::-1]))
            elif k == "cutb":
                data = read_bytes(path)
                data = data[:max(0, len(data) - op[1])]
                write_bytes(path, data)
                out.append(enc_bytes(data))
            elif k == "raw":
                write_bytes(path, bytes(op[1]))
                out.append("ok")
            elif k == "rawapp":
                with open(path, "ab") as f:
                    f.write(bytes(op[1]))
                out.append(enc_bytes(read_bytes(path)))
            else:
                raise ValueError(op)
    finally:
        H.datetime = real_dt
    return out


def file_model_lines(case):
    out = ["fnew"]
    for op in case["ops"]:
        k = op[0]
        if k == "app":
            out.append(f"app {op[1]} {enc_str(op[2])} {enc_str(op[3])}")
        elif k in ("load", "get"):
            out.append(f"{k} {op[1]}")
        elif k == "tapp":
            out.append(f"tapp {op[1]} {enc_str(op[2])} {enc_str(op[3])}")
        elif k == "tload":
            out.append(f"tload {op[1]}")
        elif k in ("fresh", "truncall"):
            out.append(k)
        elif k == "cutb":
            out.append(f"cutb {op[1]}")
        elif k == "raw":
            out.append("fraw " + enc_bytes(op[1]))
        elif k == "rawapp":
            out.append("frawapp " + enc_bytes(op[1]))
        else:
            raise ValueError(op)
    return out


# ------------------------------------------------------------------ real code: base class, in-memory backends
def mem_impl(case):
    h = InMemoryHistory(list(case["init"])) if case["backend"] == "mem" else DummyHistory()
    loop = asyncio.new_event_loop()
    g = {"gen": None, "pc": "none", "out": []}

    def line():
        return (f"loaded={1 if h._loaded else 0} strs={enc_strs(h._loaded_strings)} g={g['pc']} "
                f"out={enc_strs(g['out'])}")

    out = [line()]
    try:
        for op in case["ops"]:
            k = op[0]
            if k == "app":
                h.append_string(op[1])
                out.append(line())
            elif k == "load":
                out.append(enc_strs(collect_load(h)))
            elif k == "get":
                out.append(enc_strs(h.get_strings()))
            elif k == "gnew":
                g["gen"], g["pc"], g["out"] = h.load(), "fresh", []
                out.append(line())
            elif k == "gnext":
                if g["pc"] != "none":
                    try:
                        g["out"].append(loop.run_until_complete(g["gen"].__anext__()))
                        g["pc"] = "iter"
                    except StopAsyncIteration:
                        g["pc"] = "none"
                out.append(line())
            else:
                raise ValueError(op)
    finally:
        loop.close()
    return out


def mem_model_lines(case):
    out = ["hnew mem " + enc_strs(case["init"]) if case["backend"] == "mem" else "hnew dummy"]
    for op in case["ops"]:
        out.append("h app " + enc_str(op[1]) if op[0] == "app" else "h " + op[0])
    return out


def mem_oracle(case):
    """base class + in-memory backends, stated directly: load() yields everything that was given to the
    constructor or appended, newest first, each once; get_strings() is the same oldest first once a
    load() happened (before: what was appended so far); DummyHistory never has anything."""
    v = []
    dummy = case["backend"] != "mem"
    h = DummyHistory() if dummy else InMemoryHistory(list(case["init"]))
    appended = []
    loaded = False

    def bad(site, cond, msg):
        v.append({"signature": f"{site} | {cond}", "msg": msg})

    for op in case["ops"]:
        k = op[0]
        if k == "app":
            h.append_string(op[1])
            appended.append(op[1])
        elif k == "load":
            got = collect_load(h)
            loaded = True
            exp = [] if dummy else (list(case["init"]) + appended)[::-1]
            if got != exp:
                bad("History.load", "dummy yields something" if dummy else "in-memory roundtrip",
                    f"init={case['init']!r} ops={case['ops']!r}: load() gave {got!r}, expected {exp!r}")
        elif k == "get":
            got = h.get_strings()
            exp = [] if dummy else ((list(case["init"]) if loaded else []) + appended)
            if got != exp:
                bad("History.get_strings", "order / content",
                    f"init={case['init']!r} ops={case['ops']!r}: get_strings() gave {got!r}, expected {exp!r}")
        # gnew / gnext (a consumer that appends between two items of the inline generator): outside the
        # statement of the property - compared with the model only
    return v


# ------------------------------------------------------------------ real code: write() calls, several processes
class _RecRaw(__import__("io").RawIOBase):
    def __init__(self, calls):
        super().__init__()
        self.calls = calls

    def writable(self):
        return True

    def write(self, b):
        self.calls.append(bytes(b))
        return len(b)


def store_write_calls(ts, s):
    """the write() calls FileHistory.store_string issues for one entry, as they reach an unbuffered
    file: the real method runs with `open` (in history.py only) replaced by a recording file object"""
    import io

    calls = []
    real_open = open

    def fake_open(file, mode="r", *a, **k):
        if "a" in mode and "b" in mode:
            return io.BufferedWriter(_RecRaw(calls), buffer_size=1)
        return real_open(file, mode, *a, **k)

    clock = _FixedClock()
    clock.ts = ts
    real_dt = H.datetime
    had = "open" in H.__dict__
    old = H.__dict__.get("open")
    H.datetime = clock
    H.open = fake_open
    try:
        FileHistory(os.path.join(scratch(), "mw-unused")).store_string(s)
    finally:
        H.datetime = real_dt
        if had:
            H.open = old
        else:
            del H.open
    return calls


def mw_file(case):
    """(file bytes, per process the chunk lists of its entries)"""
    queues, per_entry = [], []
    for proc in case["procs"]:
        q, pe = [], []
        for ts, s in proc:
            calls = store_write_calls(ts, s)
            pe.append(len(calls))
            q += calls
        queues.append(q)
        per_entry.append(pe)
    data = b""
    for i in case["order"]:
        if i < len(queues) and queues[i]:
            data += queues[i].pop(0)
    return data, per_entry


def mw_impl(case):
    data, _ = mw_file(case)
    path = os.path.join(scratch(), "mw")
    write_bytes(path, data)
    return [enc_bytes(data) + " | " + safe_fresh_load(path)]


def mw_model_lines(case):
    toks = ["mw", str(len(case["procs"]))]
    for proc in case["procs"]:
        toks.append(str(len(proc)))
        for ts, s in proc:
            toks += [enc_str(ts), enc_str(s)]
    toks.append(enc_bytes(case["order"]))
    return [" ".join(toks)]


def mw_oracle(case):
    """several processes on one file.  Stated by the property: loading never fails; and when every
    record reaches the file in one piece (the calls of one store_string are not separated by another
    process - "alternating" appends) every entry is read back, in arrival order.  Interleaved partial
    records are outside the statement (compared with the model only; see multi_write_interleave_merges)."""
    v = []
    data, per_entry = mw_file(case)
    path = os.path.join(scratch(), "mwo")
    write_bytes(path, data)
    try:
        got = list(FileHistory(path).load_history_strings())
    except Exception as e:
        return [{"signature": "FileHistory.load_history_strings | raises",
                 "msg": f"{case!r}: {type(e).__name__}: {e}"}]
    # replay the order on (process, entry, chunk) triples
    pos = [[0, 0] for _ in case["procs"]]
    arrival, cur, atomic = [], None, True
    for i in case["order"]:
        if i >= len(pos):
            continue
        e, c = pos[i]
        if e >= len(per_entry[i]):
            continue
        if cur is not None and cur != (i, e):
            atomic = False
        cur = (i, e)
        c += 1
        if c == per_entry[i][e]:
            arrival.append(case["procs"][i][e][1])
            pos[i] = [e + 1, 0]
            cur = None
        else:
            pos[i] = [e, c]
    if atomic and cur is None and got != arrival[::-1]:
        v.append({"signature": "FileHistory | several writers, whole records alternating: roundtrip",
                  "msg": f"{case!r}: loaded {got!r}, stored in this order {arrival!r}"})
    return v


# ------------------------------------------------------------------ real code: codec
def codec_model_lines(case):
    return ["enc " + enc_str(s) for s in case["strs"]] + ["dec " + enc_bytes(b) for b in case["bytes"]]


def codec_impl(case):
    return ([enc_bytes(s.encode("utf-8")) for s in case["strs"]]
            + [enc_str(bytes(b).decode("utf-8", errors="replace")) for b in case["bytes"]])


# ------------------------------------------------------------------ real code: threaded, scheduled
_tls = threading.local()


def _role():
    return getattr(_tls, "role", None)


class Sched:
    """All controlled threads stop at named points; the harness lets exactly one of them run to
    its next point at a time."""

    def __init__(self):
        self.cv = threading.Condition()
        self.at = {}
        self.grant = {}
        self.finished = set()
        self.free = False
        self.freed = set()       # roles that run on without stopping (stragglers of cancelled calls)
        self.postcall = False    # stop the loader when the inner load_history_strings() returns (only
                                 # reachable when that call stands outside the lock)
        self.set_pauses = False  # also stop the loader after every single event.set()

    def pause(self, role, point):
        if getattr(_tls, "inlock", False):
            return               # never stop a thread while it holds the history's lock
        with self.cv:
            if self.free or role in self.freed:
                return
            self.at[role] = point
            self.cv.notify_all()
            n = 0
            while not self.free and role not in self.freed and self.grant.get(role, 0) == 0:
                self.cv.wait(timeout=1.0)
                n += 1
                if n > 60:
                    self.free = True  # the harness is gone: let everything run out
                    self.cv.notify_all()
            if not self.free and role not in self.freed:
                self.grant[role] -= 1
            elif role in self.freed:
                self.at.pop(role, None)

    def let_go(self, role):
        """the role never stops again"""
        with self.cv:
            self.freed.add(role)
            self.at.pop(role, None)
            self.cv.notify_all()

    def finish(self, role):
        with self.cv:
            self.at.pop(role, None)
            self.finished.add(role)
            self.cv.notify_all()

    def release(self, role):
        with self.cv:
            self.at.pop(role)
            self.grant[role] = self.grant.get(role, 0) + 1
            self.cv.notify_all()

    def wait_quiet(self, role, timeout=90.0):
        with self.cv:
            ok = self.cv.wait_for(lambda: role in self.at or role in self.finished, timeout=timeout)
            if not ok:
                raise TimeoutError(f"role {role} did not reach a synchronisation point")

    def set_free(self):
        with self.cv:
            self.free = True
            self.cv.notify_all()


class GLock:
    def __init__(self, sched):
        self.s = sched
        self.l = threading.Lock()

    def __enter__(self):
        r = _role()
        if r is not None and r.startswith("C"):
            self.s.pause(r, "lock")
        self.l.acquire()
        _tls.inlock = True
        return self

    def locked(self):
        return self.l.locked()

    def __exit__(self, *a):
        _tls.inlock = False
        self.l.release()
        r = _role()
        if r is not None:
            self.s.pause(r, "unlocked")
        return False

    def acquire(self, *a, **k):
        return self.l.acquire(*a, **k)

    def release(self):
        self.l.release()


class GEvent:
    def __init__(self, sched):
        self.s = sched
        self.e = threading.Event()
        self.owner = getattr(_tls, "owner", None)  # which load() call created it

    def set(self):
        self.e.set()
        if self.s.set_pauses and _role() == "L":
            self.s.pause("L", "set")

    def clear(self):
        self.e.clear()

    def is_set(self):
        return self.e.is_set()

    def wait(self, timeout=None):
        r = _role()
        if r is None or not r.startswith("C") or self.s.free:
            return self.e.wait(timeout)
        self.s.pause(r, "wait")
        if self.s.free:
            return self.e.wait(timeout)
        return self.e.is_set()


def make_shim(sched):
    class GThread(threading.Thread):
        def run(self):
            _tls.role = "L"
            try:
                sched.pause("L", "start")
                super().run()
            except GatedFailure:
                pass             # the failure injected into the inner history (no traceback on stderr)
            finally:
                sched.finish("L")

    class Shim:
        Thread = GThread

        @staticmethod
        def Lock():
            return GLock(sched)

        @staticmethod
        def Event():
            return GEvent(sched)

    return Shim


class GatedFailure(Exception):
    """raised by the inner history when the schedule says so"""


class GatedHistory(History):
    """inner history: persistent list, snapshot on load, pausing the loader thread at its points;
    `fail` makes it raise at the next of these points.  Two kinds: `eager` = it reads its storage when
    load_history_strings() is CALLED (what FileHistory does: an ordinary function that returns
    reversed(strings)); lazy = when its first item is requested (a generator: InMemoryHistory).
    load_history_strings is an ordinary function here that returns a generator, so that the loader can be
    stopped right after the call returned ("postcall") - which only happens when the call stands outside
    the history's lock (nothing stops inside the lock)."""

    def __init__(self, sched, storage, eager=False):
        super().__init__()
        self.s = sched
        self._storage = list(storage)
        self.eager = bool(eager)
        self.fail = False
        self.snap = None

    def _point(self, gated, name):
        if gated:
            if self.fail:
                self.fail = False
                raise GatedFailure(name)
            self.s.pause("L", name)
            # (a failure ordered while the loader stands behind the returned call happens when the first
            #  item is requested, not in the call)
            if self.fail and name != "postcall":
                self.fail = False
                raise GatedFailure(name)

    def load_history_strings(self):
        gated = _role() == "L"
        post = gated and self.s.postcall
        if not post:
            self._point(gated, "called")
        snap = None
        if self.eager:
            snap = self._storage[::-1]
            if gated:
                self.snap = list(snap)
        if post:
            self._point(True, "postcall")
        return self._items(gated, snap)

    def _items(self, gated, snap):
        if snap is None:
            snap = self._storage[::-1]
            if gated:
                self.snap = list(snap)
        for item in snap:
            self._point(gated, "yield")
            yield item
        self._point(gated, "end")

    def store_string(self, string):
        self._storage.append(string)


class ThRun:
    def __init__(self, old, pre):
        self.s = Sched()
        self.real_threading = H.threading
        H.threading = make_shim(self.s)
        self.inner = GatedHistory(self.s, old)
        self.th = ThreadedHistory(self.inner)
        for p in pre:
            self.th.append_string(p)
        self.final = False
        self.out = []
        self.cthread = None
        self.athread = None
        self.pending = None
        self.threads = []

    # -- consumer
    def _consume(self, out):
        loop = asyncio.new_event_loop()

        def init():
            _tls.role = "C"

        ex = ThreadPoolExecutor(max_workers=1, initializer=init)
        loop.set_default_executor(ex)

        async def go():
            async for item in self.th.load():
                out.append(item)

        try:
            loop.run_until_complete(go())
        finally:
            self.s.finish("C")
            ex.shutdown(wait=False)
            loop.close()

    def cons_active(self):
        return self.cthread is not None and "C" not in self.s.finished

    def step(self, op):
        s = self.s
        k = op[0]
        at = s.at
        if k == "cstart":
            if self.cons_active():
                return
            s.finished.discard("C")
            self.out = []
            self.cthread = threading.Thread(target=self._consume, args=(self.out,), daemon=True)
            self.threads.append(self.cthread)
            self.cthread.start()
            s.wait_quiet("C")
            s.wait_quiet("L")
        elif k == "cwait":
            if at.get("C") == "wait":
                s.release("C")
                s.wait_quiet("C")
        elif k == "cread":
            if at.get("C") == "lock":
                s.release("C")
                s.wait_quiet("C")
        elif k == "cyield":
            if at.get("C") == "unlocked":
                s.release("C")
                s.wait_quiet("C")
                if "C" in s.finished:
                    self.cthread.join(10)
        elif k in ("lreset", "lsnap", "lappend", "lnotify", "ldone", "lfinal"):
            need = {"lreset": "start", "lsnap": "called", "lappend": "yield", "lnotify": "unlocked",
                    "ldone": "end", "lfinal": "unlocked"}[k]
            if at.get("L") != need:
                return
            if k == "lnotify" and self.final:
                return
            if k == "lfinal" and not self.final:
                return
            if k == "ldone":
                self.final = True
            s.release("L")
            s.wait_quiet("L")
        elif k == "ains":
            if self.athread is not None:
                return
            string = op[1]

            def go():
                _tls.role = "A"
                try:
                    self.th.append_string(string)
                finally:
                    s.finish("A")

            s.finished.discard("A")
            self.pending = string
            self.athread = threading.Thread(target=go, daemon=True)
            self.threads.append(self.athread)
            self.athread.start()
            s.wait_quiet("A")
        elif k == "astore":
            if at.get("A") == "unlocked":
                s.release("A")
                s.wait_quiet("A")
                self.athread.join(10)
                self.athread = None
                self.pending = None
        else:
            raise ValueError(op)

    def line(self):
        s = self.s
        la = s.at.get("L")
        if self.th._load_thread is None:
            lpc = "-"
        elif "L" in s.finished:
            lpc = "fin"
        else:
            lpc = {"start": "start", "called": "called", "yield": "iter", "end": "iter",
                   "unlocked": "notifyFinal" if self.final else "notify"}[la]
        if self.cthread is None:
            cpc = "-"
        elif "C" in s.finished:
            cpc = "done"
        else:
            cpc = {"wait": "wait", "lock": "read", "unlocked": "yield"}[s.at.get("C")]
        if cpc in ("wait", "read", "yield"):
            evs = self.th._string_load_events
            ev = "1" if (len(evs) == 1 and evs[0].is_set()) else ("0" if len(evs) == 1 else "?%d" % len(evs))
        else:
            ev = "N"
            if self.th._string_load_events:
                ev = "?%d" % len(self.th._string_load_events)
        pend = enc_str(self.pending) if self.athread is not None else "N"
        return (f"L={lpc} C={cpc} ev={ev} loaded={1 if self.th._loaded else 0} pend={pend} "
                f"strs={enc_strs(self.th._loaded_strings)} out={enc_strs(self.out)} "
                f"store={enc_strs(self.inner._storage)}")

    def close(self):
        """observations are over: let every controlled thread run out (forcing completion even if the
        code under test would wait forever), then restore the real `threading` in history.py"""
        self.s.set_free()
        for n in range(400):
            alive = [t for t in self.threads if t.is_alive()]
            lt = self.th._load_thread
            if lt is not None and lt.is_alive():
                alive.append(lt)
            if not alive:
                break
            alive[0].join(0.05 if n else 0.3)
            if alive[0].is_alive():
                # a consumer that would poll its event forever: finish it from outside
                if lt is None or not lt.is_alive():
                    self.th._loaded = True
                for ev in list(self.th._string_load_events):
                    ev.set()
        H.threading = self.real_threading


class ThRun2:
    """several simultaneous load() calls; the loader additionally stops after every single
    event.set().  ops: ["c", i, "start"|"wait"|"read"|"yield"], ["l", "reset"|"snap"|"append"|"notify"|
    "set"|"done"|"final"]; an op whose thread is not at the matching point is a no-op."""

    NCONS = 3

    def __init__(self, old, pre):
        self.s = Sched()
        self.s.set_pauses = True
        self.real_threading = H.threading
        H.threading = make_shim(self.s)
        self.inner = GatedHistory(self.s, old)
        self.th = ThreadedHistory(self.inner)
        for p in pre:
            self.th.append_string(p)
        self.outs = {}
        self.cthreads = {}
        self.threads = []
        self.final = False
        # the repaired code stops at other points (reset + snapshot are one locked block)
        self.ld = LoaderF(self.s, self.inner, HOIST) if FIXED else None

    def _consume(self, role, out):
        _tls.owner = role
        loop = asyncio.new_event_loop()

        def init():
            _tls.role = role

        ex = ThreadPoolExecutor(max_workers=1, initializer=init)
        loop.set_default_executor(ex)

        async def go():
            async for item in self.th.load():
                out.append(item)

        try:
            loop.run_until_complete(go())
        finally:
            self.s.finish(role)
            ex.shutdown(wait=False)
            loop.close()

    def step(self, op):
        s = self.s
        if op[0] == "c":
            role = "C%d" % op[1]
            what = op[2]
            if what == "start":
                if role in self.cthreads:
                    return
                self.outs[role] = []
                t = threading.Thread(target=self._consume, args=(role, self.outs[role]), daemon=True)
                self.cthreads[role] = t
                self.threads.append(t)
                t.start()
                s.wait_quiet(role)
                if self.ld is not None:
                    self.ld.started()
                else:
                    s.wait_quiet("L")
                return
            need = {"wait": "wait", "read": "lock", "yield": "unlocked"}[what]
            if s.at.get(role) == need:
                s.release(role)
                s.wait_quiet(role)
                if role in s.finished:
                    self.cthreads[role].join(10)
        elif op[0] == "l" and self.ld is not None:
            if op[1] != "snap" and self.ld.phase != "none":
                if op[1] == "reset":
                    self.ld.step("call")      # (a step of its own only when the call is outside the lock)
                self.ld.step(op[1])
        elif op[0] == "l":
            what = op[1]
            need = {"reset": "start", "snap": "called", "append": "yield", "notify": "unlocked",
                    "final": "unlocked", "set": "set", "done": "end"}[what]
            if s.at.get("L") != need:
                return
            if what == "notify" and self.final:
                return
            if what == "final" and not self.final:
                return
            if what == "done":
                self.final = True
            s.release("L")
            s.wait_quiet("L")
        else:
            raise ValueError(op)

    def line(self):
        s = self.s
        la = s.at.get("L")
        if self.ld is not None:
            lpc = self.ld.pc()
        elif self.th._load_thread is None:
            lpc = "-"
        elif "L" in s.finished:
            lpc = "fin"
        else:
            lpc = {"start": "start", "called": "called", "yield": "iter", "end": "iter",
                   "unlocked": "notifyFinal" if self.final else "notify",
                   "set": "loopFinal" if self.final else "loop"}[la]
        evs = list(self.th._string_load_events)
        owners = [getattr(e, "owner", None) for e in evs]
        parts = []
        for i in range(self.NCONS):
            role = "C%d" % i
            if role not in self.cthreads:
                parts.append("- N 0")
                continue
            if role in s.finished:
                cpc, ev = "done", "N"
            else:
                cpc = {"wait": "wait", "lock": "read", "unlocked": "yield"}[s.at.get(role)]
                mine = [e for e in evs if getattr(e, "owner", None) == role]
                ev = ("1" if mine[0].is_set() else "0") if len(mine) == 1 else "?%d" % len(mine)
            parts.append(f"{cpc} {ev} {enc_strs(self.outs[role])}")
        ids = [o[1:] if isinstance(o, str) and o.startswith("C") else "?" for o in owners]
        return (f"L={lpc} loaded={1 if self.th._loaded else 0} strs={enc_strs(self.th._loaded_strings)} "
                f"events={enc_list(ids)} | " + " | ".join(parts))

    close = ThRun.close


# ------------------------------------------------------------------ real code WITH the repair of F5
class LoaderF:
    """drives the loader thread of the REPAIRED code from one synchronisation point to the next.
    Its stops: "start" (thread created) | "unlocked" after the locked reset+snapshot block | "unlocked"
    after every locked item append | "set" after every event.set() (only with `set_pauses`) | "yield" /
    "end" inside the inner generator from the second item on (the first item is requested inside the
    lock, where nothing stops) | "unlocked" after `_loaded = True`."""

    PC = {"none": "-", "start": "start", "called": "called", "startfail": "iter",
          "reset": "iter", "iter": "iter", "end": "iter", "appended": "notify",
          "final": "notifyFinal", "loop": "loop", "loopFinal": "loopFinal", "fin": "fin"}

    def __init__(self, sched, inner, hoist=False):
        self.s = sched
        self.inner = inner
        self.hoist = hoist         # the inner load_history_strings() is called in front of the locked block
        sched.postcall = hoist
        self.phase = "none"
        self.failpending = False   # `.lfail` while the generator is suspended: it raises when resumed
        self.failed = False
        self.nappended = 0

    def started(self):
        self.s.wait_quiet("L")
        if self.phase == "none":
            self.phase = "start"

    def pc(self):
        return self.PC[self.phase]

    def remaining(self):
        if self.failpending or self.inner.snap is None:
            return 0
        return len(self.inner.snap) - self.nappended

    def _go(self):
        self.s.release("L")
        self.s.wait_quiet("L")
        if "L" in self.s.finished:
            return "fin"
        return self.s.at.get("L")

    def step(self, what):
        """what: reset | append | notify | set | done | final | fail; a step that is not enabled is a no-op"""
        ph = self.phase
        if what == "call":
            # a step of its own only when the call stands outside the lock
            if self.hoist and ph == "start":
                at = self._go()
                assert at == "postcall", at
                self.phase = "called"
        elif what == "reset":
            if (ph == "start" and not self.hoist) or ph == "called":
                at = self._go()
                assert at == "unlocked", at
                self.phase = "reset"
        elif what == "fail":
            if ph == "start" and self.hoist:
                # the call raises outside the lock: no list reset, straight to `finally:` (= the `done` step)
                self.failpending = True
                self.failed = True
                self.inner.fail = True
                self.inner.snap = []
                self.phase = "startfail"
            elif ph == "start" or ph == "called":
                self.inner.fail = True
                at = self._go()
                assert at == "unlocked", at
                self.inner.snap = []
                self.failed = True
                self.phase = "reset"
            elif ph == "iter" and not self.failpending:
                # the generator is suspended before its next item: it raises as soon as it is resumed,
                # which the code does in one go with `finally:` (= the following `done` step)
                self.failpending = True
                self.failed = True
                self.inner.fail = True
        elif what == "append":
            if (ph == "reset" or ph == "iter") and self.remaining() > 0:
                at = self._go()
                assert at == "unlocked", at
                self.nappended += 1
                self.phase = "appended"
        elif what == "notify":
            if ph == "appended":
                self.phase = self._after_set(self._go(), False)
        elif what == "set":
            if ph == "loop":
                self.phase = self._after_set(self._go(), False)
            elif ph == "loopFinal":
                self.phase = self._after_set(self._go(), True)
        elif what == "done":
            if ph in ("reset", "iter", "end", "startfail") and self.remaining() == 0:
                at = self._go()
                assert at == "unlocked", at
                self.phase = "final"
        elif what == "final":
            if ph == "final":
                self.phase = self._after_set(self._go(), True)
        else:
            raise ValueError(what)

    @staticmethod
    def _after_set(at, final):
        if at == "set":
            return "loopFinal" if final else "loop"
        if at == "fin":
            assert final
            return "fin"
        assert not final, at
        return {"yield": "iter", "end": "end"}[at]


class ThRunX:
    """the repaired ThreadedHistory of module `M` under an explicit schedule: one load() call at a time
    (any number of them one after the other, each with its own role C0, C1, ...), cancellation,
    append_string (atomic), an inner history that raises.  Model: `THF` / `stepF`."""

    def __init__(self, M, old, pre, eager=False):
        self.M = M
        self.s = Sched()
        self.real_threading = M.threading
        M.threading = make_shim(self.s)
        self.inner = GatedHistory(self.s, old, eager)
        self.th = M.ThreadedHistory(self.inner)
        for p in pre:
            self.th.append_string(p)
        self.ld = LoaderF(self.s, self.inner, HOIST and M is H)
        self.ncalls = 0
        self.role = None          # role of the load() call in progress
        self.out = []
        self.threads = []
        self.tasks = {}
        self.cthread = None
        self.athread = None

    def _append(self, string):
        """append_string in a thread of its own: it stops once, right after it has left the lock - with the
        repair everything (insert, count, store) has happened by then"""
        self._afinish()
        s = self.s

        def go():
            _tls.role = "A"
            try:
                self.th.append_string(string)
            finally:
                s.finish("A")

        s.finished.discard("A")
        self.athread = threading.Thread(target=go, daemon=True)
        self.threads.append(self.athread)
        self.athread.start()
        s.wait_quiet("A")

    def _afinish(self):
        if self.athread is not None:
            s = self.s
            if "A" not in s.finished and s.at.get("A") is not None:
                s.release("A")
                s.wait_quiet("A")
            self.athread.join(10)
            self.athread = None

    def _consume(self, role, out):
        _tls.owner = role
        loop = asyncio.new_event_loop()

        def init():
            _tls.role = role

        ex = ThreadPoolExecutor(max_workers=1, initializer=init)
        loop.set_default_executor(ex)

        async def go():
            async for item in self.th.load():
                out.append(item)

        try:
            task = loop.create_task(go())
            self.tasks[role] = (loop, task)
            try:
                loop.run_until_complete(task)
            except asyncio.CancelledError:
                pass
        finally:
            self.s.finish(role)
            ex.shutdown(wait=False)
            try:
                loop.close()
            except Exception:
                pass

    def cons_active(self):
        return self.role is not None and self.role not in self.s.finished

    def step(self, op):
        s = self.s
        k = op[0]
        self.did = False          # did this step do anything (was it enabled)?
        if k == "cstart":
            if self.cons_active():
                return
            self.did = True
            role = "C%d" % self.ncalls
            self.ncalls += 1
            self.role = role
            self.out = []
            self.cthread = threading.Thread(target=self._consume, args=(role, self.out), daemon=True)
            self.threads.append(self.cthread)
            self.cthread.start()
            s.wait_quiet(role)
            self.ld.started()
        elif k in ("cwait", "cread", "cyield"):
            need = {"cwait": "wait", "cread": "lock", "cyield": "unlocked"}[k]
            if self.cons_active() and s.at.get(self.role) == need:
                self.did = True
                s.release(self.role)
                s.wait_quiet(self.role)
                if self.role in s.finished:
                    self.cthread.join(10)
        elif k == "ccancel":
            if self.cons_active():
                self.did = True
                loop, task = self.tasks[self.role]
                loop.call_soon_threadsafe(task.cancel)
                with s.cv:
                    s.cv.wait_for(lambda: self.role in s.finished, timeout=30)
                s.let_go(self.role)      # the executor job that was under way runs out on its own
                self.cthread.join(10)
        elif k in ("lcall", "lreset", "lappend", "lnotify", "ldone", "lfinal", "lfail"):
            if self.ld.phase != "none":
                self.ld.step(k[1:])
        elif k == "app":
            self._append(op[1])
        elif k == "afin":
            self._afinish()
        elif k == "nop":
            pass
        else:
            raise ValueError(op)

    def line(self):
        s = self.s
        if self.role is None:
            cpc = "-"
        elif self.role in s.finished:
            cpc = "done"
        else:
            cpc = {"wait": "wait", "lock": "read", "unlocked": "yield"}[s.at.get(self.role)]
        evs = list(self.th._string_load_events)
        if cpc in ("wait", "read", "yield"):
            ev = ("1" if evs[0].is_set() else "0") if len(evs) == 1 else "?%d" % len(evs)
        else:
            ev = "N"
        return (f"L={self.ld.pc()} C={cpc} ev={ev} loaded={1 if self.th._loaded else 0} "
                f"ins={getattr(self.th, '_appended_count', '?')} nev={len(evs)} "
                f"strs={enc_strs(self.th._loaded_strings)} out={enc_strs(self.out)} "
                f"store={enc_strs(self.inner._storage)}")

    def close(self):
        self.s.set_free()
        for n in range(400):
            alive = [t for t in self.threads if t.is_alive()]
            lt = self.th._load_thread
            if lt is not None and lt.is_alive():
                alive.append(lt)
            if not alive:
                break
            alive[0].join(0.05 if n else 0.3)
            if alive[0].is_alive():
                if lt is None or not lt.is_alive():
                    self.th._loaded = True
                for ev in list(self.th._string_load_events):
                    ev.set()
        self.M.threading = self.real_threading


X_OPS = ("cstart", "cwait", "cread", "cyield", "ccancel", "lcall", "lreset", "lappend", "lnotify", "ldone",
         "lfinal", "lfail", "nop", "afin")


def thx_impl(case, observer=None, finale=None):
    M = fixed_module()
    if M is None:
        raise RuntimeError("no repaired history module available")
    real_threading = M.threading
    out = []
    r = None
    try:
        r = ThRunX(M, case["old"], case["pre"], case.get("eager", False))
        out.append(r.line())
        for op in case["ops"]:
            r.step(op)
            out.append(r.line())
            if observer:
                observer(r, op)
        if finale:
            finale(r)
    finally:
        if r is not None:
            r.close()
        M.threading = real_threading
    return out


def thx_model_lines(case):
    out = [f"xnewc {1 if case.get('eager') else 0} " + enc_strs(case["old"]) + " " + enc_strs(case["pre"])]
    for op in case["ops"]:
        if op[0] == "app":
            out.append("x app " + enc_str(op[1]))
        else:
            assert op[0] in X_OPS, op
            # `afin` (the appending thread returns): nothing is left to happen in the repaired code
            out.append("x nop" if op[0] == "afin" else "x " + op[0])
    return out


def th_to_thx(case):
    """a `th` case (steps of the code with F5) as steps of the repaired code"""
    ops = []
    for op in case["ops"]:
        if op[0] == "ains":
            ops.append(["app", op[1]])
        elif op[0] == "astore":
            ops.append(["afin"])
        elif op[0] == "lsnap":
            ops.append(["nop"])
        elif op[0] == "lreset":
            ops += [["lcall"], ["lreset"]]     # (`lcall` does something only when the call is outside the lock)
        else:
            ops.append([op[0]])
    return {"kind": "thx", "old": case["old"], "pre": case["pre"], "ops": ops}


def thx_oracle(case):
    """The property on the repaired ThreadedHistory under the case's schedule, stated over what was
    appended when (the harness executes the steps one after the other, so it knows):
      * a load() call that runs to its end has yielded every entry that was in the history at its final
        locked read exactly once - nothing twice, nothing missing, nothing else;
      * the entries that were in the history when load() was called come in the inline order (newest
        first); without an append in between the whole sequence is the inline sequence;
      * when the loader thread is done, get_strings() is the whole history, every entry once, in order;
      * no event stays registered after a call ended or was cancelled;
      * after the schedule all threads run freely: a call in progress completes.
    (an inner history that raised: only "completes", "nothing twice", "prefix order")"""
    v = []
    tag = "" if FIXED else "[/repo + proposed_fixes/C13-threaded-append.diff] "
    st = {"hist": list(case["old"]) + list(case["pre"]), "at_call": None, "at_read": None, "failed": False,
          "checked": True}

    def bad(site, cond, msg):
        v.append({"signature": f"{tag}{site} | {cond}", "msg": msg})

    def check_completed(r):
        got = list(r.out)
        exp = list(st["at_read"] if st["at_read"] is not None else st["hist"])
        v0 = list(st["at_call"])[::-1]
        msg = (f"old={case['old']!r} pre={case['pre']!r} schedule={case['ops']!r}: yielded {got!r}; history at "
               f"the call {v0!r}, at the final read {exp[::-1]!r}")
        if sorted({x for x in got if got.count(x) > 1}):
            bad("ThreadedHistory.load", "entry yielded twice", msg)
        if st["failed"]:
            if [x for x in got if x in v0] != v0[:len([x for x in got if x in v0])]:
                bad("ThreadedHistory.load", "inner history raised: order", msg)
            return
        if [x for x in exp if x not in got]:
            bad("ThreadedHistory.load", "entry never yielded", msg)
        if [x for x in got if x not in exp]:
            bad("ThreadedHistory.load", "yields an entry that was not appended before its final read", msg)
        if [x for x in got if x in v0] != v0:
            bad("ThreadedHistory.load", "order of the entries that existed at the call", msg)
        if len(exp) == len(v0) and got != v0:
            bad("ThreadedHistory.load", "differs from inline load (no append meanwhile)", msg)

    def observer(r, op):
        k = op[0]
        if k == "app":
            st["hist"].append(op[1])
        elif k == "lfail":
            st["failed"] = r.ld.failed
        elif k == "cstart" and r.role is not None and st.get("role") != r.role:
            st["role"] = r.role
            st["at_call"] = list(st["hist"])
            st["at_read"] = None
            st["read_done"] = False
            st["checked"] = False
        elif k == "cread" and r.did:
            st["at_read"] = list(st["hist"])
            st["read_done"] = bool(r.th._loaded)
        elif k == "ccancel":
            st["checked"] = True
        if not st["checked"] and r.role is not None and r.role in r.s.finished:
            st["checked"] = True
            check_completed(r)
        if not r.cons_active() and r.th._string_load_events:
            bad("ThreadedHistory.load", "event stays registered after the call ended",
                f"schedule={case['ops']!r}: {len(r.th._string_load_events)} event(s) left")
        if r.ld.phase == "fin" and not st["failed"]:
            if r.th.get_strings() != st["hist"]:
                bad("ThreadedHistory.get_strings", "cache differs from the history after loading",
                    f"schedule={case['ops']!r}: get_strings()={r.th.get_strings()!r} history={st['hist']!r}")

    def finale(r):
        global _TH_HANG
        if _TH_HANG:
            return
        final_read_seen = (r.cons_active() and r.s.at.get(r.role) == "unlocked" and st.get("read_done"))
        r.s.set_free()
        if r.cons_active():
            if not _await_consumer(r.th, r.cthread, lambda: list(r.th._string_load_events), 20):
                _TH_HANG = True
                bad("ThreadedHistory.load", "never completes",
                    f"old={case['old']!r} pre={case['pre']!r} after schedule {case['ops']!r} the threads ran "
                    f"freely and load() did not finish; yielded {list(r.out)!r}")
                return
            if not st["checked"]:
                st["checked"] = True
                if not final_read_seen:
                    st["at_read"] = None   # the final read happened in the free phase: everything appended
                check_completed(r)
        lt = r.th._load_thread
        if lt is not None:
            lt.join(10)
            if not lt.is_alive() and not st["failed"] and r.th.get_strings() != st["hist"]:
                bad("ThreadedHistory.get_strings", "cache differs from the history after loading",
                    f"schedule={case['ops']!r}: get_strings()={r.th.get_strings()!r} history={st['hist']!r}")

    lines = thx_impl(case, observer, finale)
    if any(l.startswith("impl-exception") for l in lines):
        bad("ThreadedHistory", "exception", str(lines[-1]))
    return v


# ------------------------------------------------------------------ repaired code, several simultaneous load() calls
class ThRunM(ThRunX):
    """the repaired ThreadedHistory with up to NCONS simultaneous load() calls (each index started once),
    the loader stopping after every single event.set(), append_string, cancellation, inner failure.
    Model: `THm` / `stepM`.  ops: ["c", i, "start"|"wait"|"read"|"yield"|"cancel"], ["l", "reset"|"append"|
    "notify"|"set"|"done"|"final"|"fail"], ["app", s], ["afin"], ["nop"]."""

    NCONS = 3

    def __init__(self, M, old, pre, eager=False):
        super().__init__(M, old, pre, eager)
        self.s.set_pauses = True
        self.outs = {}
        self.cthreads = {}

    def active(self, role):
        return role in self.cthreads and role not in self.s.finished

    def step(self, op):
        s = self.s
        self.did = False
        k = op[0]
        if k == "c":
            role, what = "C%d" % op[1], op[2]
            if what == "start":
                if role in self.cthreads:
                    return
                self.did = True
                self.outs[role] = []
                t = threading.Thread(target=self._consume, args=(role, self.outs[role]), daemon=True)
                self.cthreads[role] = t
                self.threads.append(t)
                t.start()
                s.wait_quiet(role)
                self.ld.started()
            elif what == "cancel":
                if self.active(role):
                    self.did = True
                    loop, task = self.tasks[role]
                    loop.call_soon_threadsafe(task.cancel)
                    with s.cv:
                        s.cv.wait_for(lambda: role in s.finished, timeout=30)
                    s.let_go(role)
                    self.cthreads[role].join(10)
            else:
                need = {"wait": "wait", "read": "lock", "yield": "unlocked"}[what]
                if self.active(role) and s.at.get(role) == need:
                    self.did = True
                    s.release(role)
                    s.wait_quiet(role)
                    if role in s.finished:
                        self.cthreads[role].join(10)
        elif k == "l":
            if self.ld.phase != "none":
                self.ld.step(op[1])
        elif k == "app":
            self._append(op[1])
        elif k == "afin":
            self._afinish()
        elif k == "nop":
            pass
        else:
            raise ValueError(op)

    def line(self):
        s = self.s
        evs = list(self.th._string_load_events)
        owners = [getattr(e, "owner", None) for e in evs]
        parts = []
        for i in range(self.NCONS):
            role = "C%d" % i
            if role not in self.cthreads:
                parts.append("- N 0")
                continue
            if role in s.finished:
                cpc, ev = "done", "N"
            else:
                cpc = {"wait": "wait", "lock": "read", "unlocked": "yield"}[s.at.get(role)]
                mine = [e for e in evs if getattr(e, "owner", None) == role]
                ev = ("1" if mine[0].is_set() else "0") if len(mine) == 1 else "?%d" % len(mine)
            parts.append(f"{cpc} {ev} {enc_strs(self.outs[role])}")
        ids = [o[1:] if isinstance(o, str) and o.startswith("C") else "?" for o in owners]
        return (f"L={self.ld.pc()} loaded={1 if self.th._loaded else 0} ins={getattr(self.th, '_appended_count', '?')} "
                f"strs={enc_strs(self.th._loaded_strings)} events={enc_list(ids)} "
                f"store={enc_strs(self.inner._storage)} | " + " | ".join(parts))


def thm_impl(case, observer=None, finale=None):
    M = fixed_module()
    if M is None:
        raise RuntimeError("no repaired history module available")
    real_threading = M.threading
    out = []
    r = None
    try:
        r = ThRunM(M, case["old"], case["pre"], case.get("eager", False))
        out.append(r.line())
        for op in case["ops"]:
            r.step(op)
            out.append(r.line())
            if observer:
                observer(r, op)
        if finale:
            finale(r)
    finally:
        if r is not None:
            r.close()
        M.threading = real_threading
    return out


def thm_model_lines(case):
    out = [f"mnewc {1 if case.get('eager') else 0} " + enc_strs(case["old"]) + " " + enc_strs(case["pre"])]
    for op in case["ops"]:
        if op[0] == "c":
            out.append(f"m c {op[1]} {op[2]}")
        elif op[0] == "l":
            out.append(f"m l {op[1]}")
        elif op[0] == "app":
            out.append("m app " + enc_str(op[1]))
        else:
            out.append("m nop")
    return out


def thm_oracle(case):
    """the property of `thx_oracle`, for every one of several simultaneous load() calls"""
    v = []
    tag = "" if FIXED else "[/repo + proposed_fixes/C13-threaded-append.diff] "
    hist = list(case["old"]) + list(case["pre"])
    calls = {}      # role -> {"at_call", "at_read", "read_done", "checked"}
    failed = [False]

    def bad(site, cond, msg):
        v.append({"signature": f"{tag}{site} | several simultaneous load() calls: {cond}", "msg": msg})

    def check_completed(r, role):
        c = calls[role]
        got = list(r.outs[role])
        exp = list(c["at_read"] if c["at_read"] is not None else hist)
        v0 = list(c["at_call"])[::-1]
        msg = (f"old={case['old']!r} pre={case['pre']!r} schedule={case['ops']!r}: {role} yielded {got!r}; history "
               f"at its call {v0!r}, at its final read {exp[::-1]!r}")
        if sorted({x for x in got if got.count(x) > 1}):
            bad("ThreadedHistory.load", "entry yielded twice", msg)
        if failed[0]:
            return
        if [x for x in exp if x not in got]:
            bad("ThreadedHistory.load", "entry never yielded", msg)
        if [x for x in got if x not in exp]:
            bad("ThreadedHistory.load", "yields an entry that was not appended before its final read", msg)
        if [x for x in got if x in v0] != v0:
            bad("ThreadedHistory.load", "order of the entries that existed at the call", msg)
        if len(exp) == len(v0) and got != v0:
            bad("ThreadedHistory.load", "differs from inline load (no append meanwhile)", msg)

    def cache_check(r):
        if r.ld.phase == "fin" and not failed[0] and r.th.get_strings() != hist:
            bad("ThreadedHistory.get_strings", "cache differs from the history after loading",
                f"schedule={case['ops']!r}: get_strings()={r.th.get_strings()!r} history={hist!r}")

    def observer(r, op):
        k = op[0]
        if k == "app":
            hist.append(op[1])
        elif k == "l" and op[1] == "fail":
            failed[0] = r.ld.failed
        elif k == "c" and r.did:
            role = "C%d" % op[1]
            if op[2] == "start":
                calls[role] = {"at_call": list(hist), "at_read": None, "read_done": False, "checked": False}
            elif op[2] == "read":
                calls[role]["at_read"] = list(hist)
                calls[role]["read_done"] = bool(r.th._loaded)
            elif op[2] == "cancel":
                calls[role]["checked"] = True
        for role, c in calls.items():
            if not c["checked"] and role in r.s.finished:
                c["checked"] = True
                check_completed(r, role)
        n_active = sum(1 for role in calls if r.active(role))
        if len(r.th._string_load_events) != n_active:
            bad("ThreadedHistory.load", "registered events != calls in progress",
                f"schedule={case['ops']!r}: {len(r.th._string_load_events)} event(s), {n_active} call(s) in progress")
        cache_check(r)

    def finale(r):
        global _TH_HANG
        if _TH_HANG:
            return
        seen_final = {role: (r.active(role) and r.s.at.get(role) == "unlocked" and c["read_done"])
                      for role, c in calls.items()}
        r.s.set_free()
        for role, c in calls.items():
            if c["checked"] or _TH_HANG:
                continue
            t = r.cthreads[role]
            own = lambda role=role: [e for e in r.th._string_load_events if getattr(e, "owner", None) == role]
            if not _await_consumer(r.th, t, own, 20):
                _TH_HANG = True
                bad("ThreadedHistory.load", "never completes",
                    f"old={case['old']!r} pre={case['pre']!r} after schedule {case['ops']!r} the threads ran freely "
                    f"and load() call {role} did not finish (yielded {r.outs[role]!r})")
                return
            c["checked"] = True
            if not seen_final[role]:
                c["at_read"] = None
            check_completed(r, role)
        lt = r.th._load_thread
        if lt is not None and not _TH_HANG:
            lt.join(10)
            if not lt.is_alive():
                r.ld.phase = "fin"
                cache_check(r)

    lines = thm_impl(case, observer, finale)
    if any(l.startswith("impl-exception") for l in lines):
        bad("ThreadedHistory", "exception", str(lines[-1]))
    return v


class CtlM:
    """control skeleton of `stepM`, used only to enumerate schedules whose steps are (mostly) enabled; it does
    not track the events, so a `wait` may be a stutter - on both sides"""

    eager = False

    def __init__(self, nstore, ncons):
        self.l, self.rem, self.napp, self.loaded, self.nstore = "-", 0, 0, False, nstore
        self.left = 0
        self.c = ["-"] * ncons
        self.saw = [False] * ncons
        self.apps = self.cancels = self.fails = 0

    def copy(self):
        o = CtlM(self.nstore, len(self.c))
        o.__dict__.update({k: (list(v) if isinstance(v, list) else v) for k, v in self.__dict__.items()})
        return o

    def enabled(self, max_app, max_cancel, max_fail):
        e = []
        for i, c in enumerate(self.c):
            if c == "-":
                if i == 0 or self.c[i - 1] != "-":
                    e.append(["c", i, "start"])
            elif c in ("wait", "read", "yield"):
                e.append(["c", i, c])
                if self.cancels < max_cancel:
                    e.append(["c", i, "cancel"])
        m = {"start": "call" if HOIST else "reset", "called": "reset", "notify": "notify", "notifyFinal": "final",
             "loop": "set"}
        if self.l in m:
            e.append(["l", m[self.l]])
        if self.l == "iter":
            e.append(["l", "append" if self.rem else "done"])
        if self.fails < max_fail and (self.l in ("start", "called") or (self.l == "iter" and self.rem and self.napp)):
            e.append(["l", "fail"])
        if self.apps < max_app and self.c[0] != "-":
            e.append(["app"])
        return e

    def do(self, op):
        if op[0] == "c":
            i, w = op[1], op[2]
            if w == "start":
                self.c[i] = "wait"
                if self.l == "-":
                    self.l = "start"
            elif w == "wait":
                self.c[i] = "read"
            elif w == "read":
                self.c[i] = "yield"
                self.saw[i] = self.loaded
            elif w == "yield":
                self.c[i] = "done" if self.saw[i] else "wait"
            else:
                self.c[i] = "done"
                self.cancels += 1
        elif op[0] == "app":
            self.apps += 1
            self.nstore += 1
        else:
            w = op[1]
            if w == "call":
                self.l, self.rem = "called", self.nstore
            elif w == "reset":
                if not (self.l == "called" and CtlM.eager):
                    self.rem = self.nstore
                self.l = "iter"
            elif w == "append":
                self.l, self.rem, self.napp = "notify", self.rem - 1, self.napp + 1
            elif w in ("notify", "final"):
                n = sum(1 for c in self.c if c in ("wait", "read", "yield"))
                after = "fin" if self.loaded else "iter"
                self.l, self.left = ("loop", n - 1) if n else (after, 0)
            elif w == "set":
                if self.left > 0:
                    self.left -= 1
                else:
                    self.l = "fin" if self.loaded else "iter"
            elif w == "done":
                self.l, self.loaded = "notifyFinal", True
            elif w == "fail":
                self.l, self.rem = "iter", 0
                self.fails += 1


def thm_schedules(nstore, ncons, depth, max_app, max_cancel, max_fail):
    out = []

    def go(ctl, sched):
        en = ctl.enabled(max_app, max_cancel, max_fail)
        if len(sched) == depth or not en:
            out.append(list(sched))
            return
        for op in en:
            c2 = ctl.copy()
            c2.do(op)
            sched.append(op)
            go(c2, sched)
            sched.pop()

    go(CtlM(nstore, ncons), [])
    return out


def _label_m(sched):
    n, ops = 0, []
    for op in sched:
        if op[0] == "app":
            n += 1
            ops += [["app", "new%d" % n], ["afin"]]
        else:
            ops.append(list(op))
    return ops


def thm_exhaustive(tier):
    plan = ([(1, 2, 6, 1, 0, 0), (0, 2, 4, 1, 1, 0)] if tier == "quick"
            else [(1, 2, 7, 1, 0, 0), (0, 2, 7, 1, 1, 0), (1, 2, 6, 2, 1, 0), (2, 2, 7, 0, 0, 1)])
    for nstore, ncons, depth, apps, cancels, fails in plan:
        old = ["o%d" % i for i in range(nstore)]
        for sched in thm_schedules(nstore, ncons, depth, apps, cancels, fails):
            yield {"kind": "thm", "old": old, "pre": [], "ops": _label_m(sched)}
    # an eager inner history (reads its storage when called)
    CtlM.eager = True
    try:
        nstore, ncons, depth, apps, cancels, fails = (1, 2, 5, 1, 0, 0) if tier == "quick" else (1, 2, 7, 1, 0, 0)
        for sched in thm_schedules(nstore, ncons, depth, apps, cancels, fails):
            yield {"kind": "thm", "old": ["o0"], "pre": [], "eager": True, "ops": _label_m(sched)}
    finally:
        CtlM.eager = False


def rand_thm_case(rng):
    old = ["o%d" % i for i in range(rng.choice([0, 1, 2, 3]))]
    pre = ["p0"] if rng.random() < 0.2 else []
    n = rng.choice([2, 2, 3])
    eager = rng.random() < 0.5
    CtlM.eager = eager
    ctl = CtlM(len(old) + len(pre), n)
    max_app, max_cancel, max_fail = rng.choice([0, 1, 2, 3]), rng.choice([0, 1, 2]), rng.choice([0, 0, 0, 1])
    sched = []
    for _ in range(rng.choice([10, 20, 40, 70])):
        en = ctl.enabled(max_app, max_cancel, max_fail)
        if not en:
            break
        w = [(0.3 if (op[0] == "app" or op[-1] in ("cancel", "fail")) else 1.0) for op in en]
        op = rng.choices(en, w)[0]
        ctl.do(op)
        sched.append(op)
    ops = _label_m(sched)
    if rng.random() < 0.5:
        # let the appending threads return later
        fins = [i for i, op in enumerate(ops) if op == ["afin"]]
        for i in reversed(fins):
            ops.pop(i)
            ops.insert(min(len(ops), i + rng.randrange(0, 6)), ["afin"])
    CtlM.eager = False
    return {"kind": "thm", "old": old, "pre": pre, "eager": eager, "ops": ops}


def th2_run(case, finale=None):
    real_threading = H.threading
    out = []
    r = None
    try:
        r = ThRun2(case["old"], case["pre"])
        out.append(r.line())
        for op in case["ops"]:
            r.step(op)
            out.append(r.line())
        if finale:
            finale(r)
    finally:
        if r is not None:
            r.close()
        H.threading = real_threading
    return out


def th2_model_lines(case):
    out = ["nnew " + enc_strs(case["old"]) + " " + enc_strs(case["pre"])]
    for op in case["ops"]:
        if op[0] == "c":
            out.append(f"nc {op[1]} {op[2]}")
        elif FIXED and op[1] in ("reset", "snap"):
            # repaired code: list reset + snapshot are ONE locked block = the two model steps at once
            out.append("nl resetsnap" if op[1] == "reset" else "nl nop")
        else:
            out.append(f"nl {op[1]}")
    return out


def _await_consumer(th, t, own_events, limit):
    """wait for a load() call running freely; it can be declared hung early when nobody is left to
    wake it: the loader thread has ended and the consumer's event stays unset"""
    import time

    t0 = time.time()
    stuck_since = None
    while t.is_alive() and time.time() - t0 < limit:
        t.join(0.1)
        lt = th._load_thread
        evs = own_events()
        hopeless = (lt is not None and not lt.is_alive() and evs and not any(e.is_set() for e in evs))
        if hopeless:
            stuck_since = stuck_since or time.time()
            if time.time() - stuck_since > 6.0:
                break
        else:
            stuck_since = None
    return not t.is_alive()


def th2_oracle(case):
    v = []

    def finale(r):
        global _TH_HANG
        # from here on: real timing; every load() call must complete with the inline sequence
        exp = (list(case["old"]) + list(case["pre"]))[::-1]
        r.s.set_free()
        for role, t in r.cthreads.items():
            if _TH_HANG:
                break
            own = lambda role=role: [e for e in r.th._string_load_events if getattr(e, "owner", None) == role]
            if not _await_consumer(r.th, t, own, 20):
                _TH_HANG = True
                v.append({"signature": "ThreadedHistory.load | several simultaneous load() calls: never completes",
                          "msg": f"old={case['old']!r} pre={case['pre']!r} after schedule {case['ops']!r} the "
                                 f"threads ran freely, the loader thread ended, and load() call {role} did not finish "
                                 f"(yielded {r.outs[role]!r}); events still registered: "
                                 f"{len(r.th._string_load_events)}"})
            elif r.outs[role] != exp:
                v.append({"signature": "ThreadedHistory.load | several simultaneous load() calls: wrong items",
                          "msg": f"schedule {case['ops']!r}: {role} yielded {r.outs[role]!r}, inline {exp!r}"})

    lines = th2_run(case, finale)
    if any(l.startswith("impl-exception") for l in lines):
        v.append({"signature": "ThreadedHistory | exception", "msg": str(lines[-1])})
    return v


def th_impl(case, observer=None, finale=None):
    real_threading = H.threading
    out = []
    r = None
    try:
        r = ThRun(case["old"], case["pre"])
        out.append(r.line())
        for op in case["ops"]:
            r.step(op)
            out.append(r.line())
            if observer:
                observer(r, op)
        if finale:
            finale(r)
    finally:
        if r is not None:
            r.close()
        H.threading = real_threading
    return out


def th_model_lines(case):
    out = ["tnew " + enc_strs(case["old"]) + " " + enc_strs(case["pre"])]
    for op in case["ops"]:
        if op[0] == "ains":
            out.append("ains " + enc_str(op[1]))
        else:
            out.append(op[0])
    return out


# ------------------------------------------------------------------ plugin interface
def _skip(case):
    """cases of the repaired code when no repaired module can be had (the proposed diff does not apply to
    the tree under test): nothing is compared"""
    return case["kind"] in ("thx", "thm") and fixed_module() is None


def model_lines(case):
    if _skip(case):
        return []
    k = case["kind"]
    if k == "file":
        return file_model_lines(case)
    if k == "codec":
        return codec_model_lines(case)
    if k == "th":
        return thx_model_lines(th_to_thx(case)) if FIXED else th_model_lines(case)
    if k == "th2":
        return th2_model_lines(case)
    if k == "thx":
        return thx_model_lines(case)
    if k == "thm":
        return thm_model_lines(case)
    if k == "mem":
        return mem_model_lines(case)
    if k == "mw":
        return mw_model_lines(case)
    raise ValueError(k)


def impl_lines(case):
    if _skip(case):
        return []
    k = case["kind"]
    if k == "file":
        return file_impl(case)
    if k == "codec":
        return codec_impl(case)
    if k == "th":
        return thx_impl(th_to_thx(case)) if FIXED else th_impl(case)
    if k == "th2":
        return th2_run(case)
    if k == "thx":
        return thx_impl(case)
    if k == "thm":
        return thm_impl(case)
    if k == "mem":
        return mem_impl(case)
    if k == "mw":
        return mw_impl(case)
    raise ValueError(k)


# ------------------------------------------------------------------ oracle
def _match(pattern, got):
    """pattern: list of ('ok', s) | ('torn',) oldest first; got: loaded strings oldest first.
    A torn record may contribute zero or one arbitrary entry."""
    memo = {}

    def go(i, j):
        if (i, j) in memo:
            return memo[(i, j)]
        if i == len(pattern):
            r = j == len(got)
        elif pattern[i][0] == "ok":
            r = j < len(got) and got[j] == pattern[i][1] and go(i + 1, j + 1)
        else:
            r = go(i + 1, j) or (j < len(got) and go(i + 1, j + 1))
        memo[(i, j)] = r
        return r

    return go(0, 0)


def _cut_segments(segs, k):
    """segments (kind, start, end, string) of the file; only the first k bytes survive"""
    out = []
    for kind, a, b, s in segs:
        if b <= k:
            out.append((kind, a, b, s))
        elif a < k:
            out.append(("torn", a, k, None))
    return out


_THREADED_BROKEN = False


def threaded_file_load(path):
    """ThreadedHistory(FileHistory) with real, unscheduled threads"""
    th = ThreadedHistory(FileHistory(path))

    async def go():
        out = []

        async def inner():
            async for x in th.load():
                out.append(x)

        await asyncio.wait_for(inner(), timeout=30)
        return out

    return asyncio.run(go())


def file_oracle(case):
    v = []

    def bad(site, cond, msg):
        v.append({"signature": f"{site} | {cond}", "msg": msg})

    d = scratch()
    path = os.path.join(d, "ohist")
    tpath = os.path.join(d, "otrunc")
    if os.path.exists(path):
        os.unlink(path)
    insts = {}
    segs = []  # (kind, start, end, string)
    nfresh = [0]

    def pattern(ss):
        # complete foreign lines between records contribute nothing; a cut one may leave <=1 damaged entry
        return [("ok", s[3]) if s[0] == "ok" else ("torn",) for s in ss if s[0] != "foreign"]

    def check_load(p, ss, where):
        try:
            got = list(FileHistory(p).load_history_strings())
        except Exception as e:
            bad("FileHistory.load_history_strings", "raises", f"{where}: {type(e).__name__}: {e}")
            return None
        if not _match(pattern(ss), got[::-1]):
            intact = all(s[0] in ("ok", "foreign") for s in ss)
            bad("FileHistory.load_history_strings",
                "roundtrip" if intact else "torn file: completed entry lost, damaged or reordered",
                f"{where}: expected "
                f"{[s[3] if s[0] == 'ok' else '<=1 damaged' for s in ss if s[0] != 'foreign'][::-1]!r} got {got!r}")
        return got

    for op in case["ops"]:
        k = op[0]
        if k == "app":
            i = op[1]
            if i not in insts:
                insts[i] = FileHistory(path)
            a = os.path.getsize(path) if os.path.exists(path) else 0
            insts[i].append_string(op[3])
            b = os.path.getsize(path)
            segs.append(("ok", a, b, op[3]))
        elif k == "fresh":
            got = check_load(path, segs, "fresh load")
            global _THREADED_BROKEN
            nfresh[0] += 1
            if (got is not None and os.path.exists(path) and not _THREADED_BROKEN
                    and (len(got) + nfresh[0]) % 3 == 0):
                # background-thread loading = inline loading (real threads, no schedule)
                try:
                    tgot = threaded_file_load(path)
                    if tgot != got:
                        bad("ThreadedHistory.load", "differs from inline load (no concurrent append)",
                            f"threaded {tgot!r} inline {got!r}")
                except (asyncio.TimeoutError, TimeoutError):
                    _THREADED_BROKEN = True  # do not wait again in this process
                    bad("ThreadedHistory.load", "never completes (no concurrent append)",
                        f"load() of a {len(got)}-entry file did not finish within 30 s")
                except Exception as e:
                    bad("ThreadedHistory.load", "raises", f"{type(e).__name__}: {e}")
        elif k == "truncall":
            data = read_bytes(path)
            write_bytes(tpath, data)
            for n in range(len(data), -1, -1):
                os.truncate(tpath, n)
                check_load(tpath, _cut_segments(segs, n), f"file cut at byte {n} of {len(data)}")
        elif k == "cutb":
            data = read_bytes(path)
            n = max(0, len(data) - op[1])
            write_bytes(path, data[:n])
            segs = _cut_segments(segs, n)
        elif k == "raw":
            write_bytes(path, bytes(op[1]))
            segs = [("torn", 0, 0, None)] * (len(op[1]) + 1)  # arbitrary content: only "never fails"
            try:
                list(FileHistory(path).load_history_strings())
            except Exception as e:
                bad("FileHistory.load_history_strings", "raises", f"raw file {op[1]!r}: {type(e).__name__}: {e}")
        elif k == "rawapp":
            a = os.path.getsize(path) if os.path.exists(path) else 0
            with open(path, "ab") as f:
                f.write(bytes(op[1]))
            segs.append(("foreign", a, a + len(op[1]), None))
        elif k == "load":
            if op[1] not in insts:
                insts[op[1]] = FileHistory(path)
            try:
                collect_load(insts[op[1]])
            except Exception:
                pass  # judged by the fresh loads
        elif k == "get":
            pass
        elif k == "tapp":
            i = op[1]
            if i not in insts:
                insts[i] = FileHistory(path)
            a = os.path.getsize(path) if os.path.exists(path) else 0
            ThreadedHistory(insts[i]).append_string(op[3])
            b = os.path.getsize(path)
            segs.append(("ok", a, b, op[3]))
        elif k == "tload":
            i = op[1]
            if i not in insts:
                insts[i] = FileHistory(path)
            inline = safe_fresh_load(path)
            tgot = wrapped_threaded_load(insts[i])
            if tgot != inline:
                bad("ThreadedHistory.load", "differs from inline load (wrapped instance with a past, no concurrent append)",
                    f"threaded {tgot!r} inline by a fresh instance {inline!r}")
    return v


_TH_HANG = False


def th_oracle(case):
    """Property on the real ThreadedHistory under the case's schedule: when a load() call completes,
    it has yielded exactly the inline sequence: reverse(everything stored or inserted so far), every
    entry once."""
    v = []
    state = {"inserted": list(case["old"]) + list(case["pre"]), "overlap": False, "was_done": True,
             "first": True, "win": False}

    def check_cache(r):
        # once the loader thread has ended (and no append_string is half way) the cache must be the
        # whole history, every entry once, in order.  "win": an append_string was under way while the
        # loader thread stood between its creation and the inner history's snapshot - the region of
        # F5a / F5c (over-approximated); outside that region the cache must be right.
        if "L" in r.s.finished and r.athread is None and r.th.get_strings() != state["inserted"]:
            cond = ("append_string overlaps the loader's list reset / snapshot" if state["win"]
                    else "no append_string during the loader's list reset / snapshot")
            v.append({"signature": f"ThreadedHistory.get_strings | {cond}: cache differs from the history",
                      "msg": f"old={case['old']!r} pre={case['pre']!r} schedule={case['ops']!r}: "
                             f"get_strings()={r.th.get_strings()!r}, appended so far {state['inserted']!r}"})

    def observer(r, op):
        if r.s.at.get("L") in ("start", "called") and (op[0] in ("ains", "astore") or r.athread is not None):
            state["win"] = True
        observer1(r, op)
        check_cache(r)

    def observer1(r, op):
        # "overlap" is exactly the complement of the hypothesis of the Lean theorem no_overlap_exact
        # (`allowed`): an append_string whose insert happens while a load() call is in progress, or
        # the first load() starting while an append_string is between its insert and its store.
        # It is sticky: the damage to _loaded_strings persists for every later load().
        k = op[0]
        active = r.cons_active()
        if k == "cstart":
            if state["first"] and r.cthread is not None:
                state["first"] = False
                if r.athread is not None:
                    state["overlap"] = True
            state["was_done"] = False
            return
        if k == "ains" and r.pending == op[1] and r.athread is not None and op[1] not in state["inserted"]:
            state["inserted"].append(op[1])
            if active:
                state["overlap"] = True
        if not state["was_done"] and r.cthread is not None and "C" in r.s.finished:
            state["was_done"] = True
            check_completed(r)

    def check_completed(r):
        exp = state["inserted"][::-1]
        got = list(r.out)
        if got != exp:
            dup = sorted({x for x in got if got.count(x) > 1})
            missing = [x for x in exp if x not in got]
            cond = "no overlapping append" if not state["overlap"] else "append_string overlaps load"
            msg = (f"old={case['old']!r} pre={case['pre']!r} schedule={case['ops']!r}: "
                   f"yielded {got!r}, inline load gives {exp!r}")
            if dup:
                v.append({"signature": f"ThreadedHistory.load | {cond}: entry yielded twice", "msg": msg})
            if missing:
                v.append({"signature": f"ThreadedHistory.load | {cond}: entry never yielded", "msg": msg})
            if not dup and not missing:
                v.append({"signature": f"ThreadedHistory.load | {cond}: order", "msg": msg})

    def finale(r):
        # whatever the schedule prefix was: from here on all threads run freely (real timing);
        # a load() call that is in progress must complete, with the right items
        global _TH_HANG
        if not r.cons_active() or _TH_HANG:
            return
        r.s.set_free()
        if not _await_consumer(r.th, r.cthread, lambda: list(r.th._string_load_events), 20):
            _TH_HANG = True  # reported once per worker process; do not wait again
            v.append({"signature": "ThreadedHistory.load | never completes",
                      "msg": f"old={case['old']!r} pre={case['pre']!r} after schedule {case['ops']!r} the "
                             f"threads ran freely, the loader thread ended, and load() did not finish; yielded {list(r.out)!r}"})
            return
        if r.athread is not None:
            r.athread.join(8)
        check_completed(r)

    def finale_all(r):
        finale(r)
        if not _TH_HANG:
            r.s.set_free()
            if r.athread is not None:
                r.athread.join(8)
                if not r.athread.is_alive():
                    r.athread = None
            lt = r.th._load_thread
            if lt is not None:
                lt.join(8)
                if not lt.is_alive():
                    r.s.finish("L")
                    check_cache(r)

    lines = th_impl(case, observer, finale_all)
    if any(l.startswith("impl-exception") for l in lines):
        v.append({"signature": "ThreadedHistory | exception", "msg": str(lines[-1])})
    return v


def oracle(case):
    if _skip(case):
        return []
    k = case["kind"]
    if k == "file":
        v = file_oracle(case)
    elif k == "th":
        v = thx_oracle(th_to_thx(case)) if FIXED else th_oracle(case)
    elif k == "th2":
        v = th2_oracle(case)
    elif k == "thx":
        v = thx_oracle(case)
    elif k == "thm":
        v = thm_oracle(case)
    elif k == "mem":
        v = mem_oracle(case)
    elif k == "mw":
        v = mw_oracle(case)
    else:
        v = []
        for s in case["strs"]:
            if s.encode("utf-8").decode("utf-8", errors="replace") != s:
                v.append({"signature": "codec | roundtrip", "msg": repr(s)})
    seen, out = set(), []
    for x in v:
        if x["signature"] not in seen:
            seen.add(x["signature"])
            out.append(x)
    return out


# ------------------------------------------------------------------ generators
def rec_len(ts, s):
    return 3 + len(ts.encode()) + 1 + sum(len(l.encode()) + 2 for l in s.split("\n"))


def entries_case(entries, insts=None, ts="T"):
    ops = []
    for n, e in enumerate(entries):
        ops.append(["app", (insts[n] if insts else 0), ts, e])
    ops += [["fresh"], ["truncall"]]
    return {"kind": "file", "ops": ops}


def strings_upto(alpha, n):
    for k in range(n + 1):
        for tup in itertools.product(alpha, repeat=k):
            yield "".join(tup)


def rand_string(rng, maxlen=12):
    n = rng.choice([0, 1, 1, 2, 3, 5, maxlen])
    return "".join(rng.choice(RAND_ALPHA) for _ in range(n))


def rand_file_case(rng):
    ops = []
    n_ops = rng.randrange(1, 10)
    did_trunc = False
    for _ in range(n_ops):
        r = rng.random()
        if r < 0.52:
            ops.append(["app", rng.randrange(4), rng.choice(TS_POOL), rand_string(rng)])
        elif r < 0.60:
            ops.append(["rawapp", list(b"".join(rng.choice(FOREIGN_LINES) for _ in range(rng.randrange(1, 4))))])
        elif r < 0.65:
            ops.append(["load", rng.randrange(4)])
        elif r < 0.75:
            ops.append(["get", rng.randrange(4)])
        elif r < 0.80:
            ops.append(["fresh"])
        elif r < 0.83:
            ops.append(["tapp", rng.randrange(4), rng.choice(TS_POOL), rand_string(rng)])
        elif r < 0.86:
            ops.append(["tload", rng.randrange(4)])
        elif r < 0.95:
            ops.append(["cutb", rng.choice([0, 1, 1, 2, 3, 4, 5, 8, 13, 30, 31, 32, 33, 60])])
        else:
            if not did_trunc:
                ops.append(["truncall"])
                did_trunc = True
    ops.append(["fresh"])
    if not did_trunc:
        ops.append(["truncall"])
    for i in range(4):
        if rng.random() < 0.5:
            ops.append(["load", i])
            ops.append(["get", i])
        elif rng.random() < 0.3:
            ops.append(["tload", i])
    return {"kind": "file", "ops": ops}


def rand_raw_case(rng):
    n = rng.choice([1, 2, 3, 5, 8, 13, 24])
    b = [rng.choice(RAW_RAND) if rng.random() < 0.9 else rng.randrange(256) for _ in range(n)]
    ops = [["raw", b], ["fresh"]]
    if rng.random() < 0.5:
        ops += [["app", 0, "T", rand_string(rng, 5)], ["fresh"], ["truncall"]]
    return {"kind": "file", "ops": ops}


def codec_cases(tier, rng):
    pts = [0, 1, 9, 10, 13, 0x2B, 0x23, 0x7F, 0x80, 0x85, 0xFF, 0x7FF, 0x800, 0x2028, 0x2029, 0xD7FF, 0xE000,
           0xFFFD, 0xFFFF, 0x10000, 0x1F600, 0x10FFFF]
    yield {"kind": "codec", "strs": [chr(p) for p in pts] + ["".join(chr(p) for p in pts)], "bytes": []}
    # every single byte, every pair of "interesting" bytes
    yield {"kind": "codec", "strs": [], "bytes": [[b] for b in range(256)]}
    inter = sorted(set(RAW_RAND + [0xC3, 0xA9, 0xE4, 0xB8, 0x96, 0xEE, 0xF1, 0xF3, 0x98]))
    yield {"kind": "codec", "strs": [], "bytes": [[a, b] for a in inter for b in inter]}


def codec_random(tier, rng):
    inter = sorted(set(RAW_RAND + [0xC3, 0xA9, 0xE4, 0xB8, 0x96, 0xEE, 0xF1, 0xF3, 0x98]))
    n = 40 if tier == "quick" else 400
    for _ in range(n):
        strs = []
        for _ in range(20):
            k = rng.randrange(0, 6)
            s = ""
            for _ in range(k):
                c = rng.choice([rng.randrange(0x80), rng.randrange(0x80, 0x800), rng.randrange(0x800, 0xD800),
                                rng.randrange(0xE000, 0x10000), rng.randrange(0x10000, 0x110000)])
                s += chr(c)
            strs.append(s)
        bs = [[rng.choice(inter) if rng.random() < 0.85 else rng.randrange(256)
               for _ in range(rng.randrange(1, 9))] for _ in range(40)]
        yield {"kind": "codec", "strs": strs, "bytes": bs}


# -- threaded schedules
class Ctl:
    """control skeleton used only to enumerate schedules whose steps are enabled"""

    __slots__ = ("l", "rem", "c", "ev", "pend", "loaded", "nstore", "appends", "sawdone")

    def __init__(self, nstore):
        self.l = "-"
        self.rem = 0
        self.c = "-"
        self.ev = False
        self.pend = False
        self.loaded = False
        self.nstore = nstore
        self.appends = 0
        self.sawdone = False

    def copy(self):
        o = Ctl(self.nstore)
        for a in self.__slots__:
            setattr(o, a, getattr(self, a))
        return o

    def enabled(self, max_app, restarts):
        e = []
        if self.c == "-" or (self.c == "done" and restarts):
            e.append("cstart")
        if self.c == "wait" and self.ev:
            e.append("cwait")
        if self.c == "read":
            e.append("cread")
        if self.c == "yield":
            e.append("cyield")
        if self.l == "start":
            e.append("lreset")
        if self.l == "called":
            e.append("lsnap")
        if self.l == "iter":
            e.append("lappend" if self.rem else "ldone")
        if self.l == "notify":
            e.append("lnotify")
        if self.l == "notifyFinal":
            e.append("lfinal")
        if self.pend:
            e.append("astore")
        elif self.appends < max_app:
            e.append("ains")
        return e

    def do(self, k):
        if k == "cstart":
            if self.l == "-":
                self.l = "start"
            self.c, self.ev = "wait", True
        elif k == "cwait":
            self.c = "read"
        elif k == "cread":
            self.ev = False
            self.sawdone = self.loaded
            self.c = "yield"
        elif k == "cyield":
            self.c = "done" if self.sawdone else "wait"
        elif k == "lreset":
            self.l = "called"
        elif k == "lsnap":
            self.l, self.rem = "iter", self.nstore
        elif k == "lappend":
            self.l, self.rem = "notify", self.rem - 1
        elif k == "lnotify":
            self.l, self.ev = "iter", True
        elif k == "ldone":
            self.l, self.loaded = "notifyFinal", True
        elif k == "lfinal":
            self.l, self.ev = "fin", True
        elif k == "ains":
            self.pend = True
            self.appends += 1
        elif k == "astore":
            self.pend = False
            self.nstore += 1


def all_schedules(nstore, depth, max_app, restarts=True):
    """maximal schedules (length == depth, or nothing enabled) of enabled steps"""
    out = []

    def go(ctl, sched):
        en = ctl.enabled(max_app, restarts)
        if len(sched) == depth or not en:
            out.append(list(sched))
            return
        for k in en:
            c2 = ctl.copy()
            c2.do(k)
            sched.append(k)
            go(c2, sched)
            sched.pop()

    go(Ctl(nstore), [])
    return out


def label_appends(sched):
    n = 0
    ops = []
    for k in sched:
        if k == "ains":
            n += 1
            ops.append(["ains", "new%d" % n])
        else:
            ops.append([k])
    return ops


def th_exhaustive(tier):
    # (old, pre, depth, max concurrent appends, allow a second load())
    if tier == "quick":
        plan = [([], [], 40, 0, False), ([], ["p1"], 40, 0, False), (["o1", "o2"], [], 12, 0, False),
                (["o1", "o2"], [], 7, 1, True), ([], ["p1"], 8, 1, True)]
    else:
        plan = [([], [], 30, 0, True), ([], ["p1"], 40, 0, False), ([], ["p1"], 20, 0, True),
                (["o1", "o2"], [], 40, 0, False), (["o1", "o2"], ["p1"], 18, 0, False),
                (["o1", "o2"], [], 12, 1, True), ([], ["p1"], 12, 1, True), (["o1"], ["p1"], 12, 1, True),
                ([], [], 10, 2, True), (["o1"], [], 10, 2, True)]
    for old, pre, depth, max_app, restarts in plan:
        for sched in all_schedules(len(old) + len(pre), depth, max_app, restarts):
            yield {"kind": "th", "old": old, "pre": pre, "ops": label_appends(sched)}


def rand_th_case(rng, with_appends):
    old = ["o%d" % i for i in range(rng.choice([0, 1, 2, 3, 5]))]
    pre = ["p%d" % i for i in range(rng.choice([0, 0, 1, 2]))]
    ctl = Ctl(len(old) + len(pre))
    sched = []
    max_app = rng.choice([1, 2, 3]) if with_appends else 0
    restarts_left = rng.choice([0, 1, 2])
    for _ in range(rng.choice([10, 20, 40, 80])):
        en = ctl.enabled(max_app, restarts_left > 0)
        if not en:
            break
        # occasionally try a disabled step too (must be a no-op on both sides)
        if rng.random() < 0.05:
            k = rng.choice(["cwait", "cread", "cyield", "lreset", "lsnap", "lappend", "lnotify", "ldone", "lfinal", "astore"])
            if k not in en:
                sched.append(k)
                continue
        weights = [(0.3 if k == "ains" else 1.0) for k in en]
        k = rng.choices(en, weights)[0]
        if k == "cstart" and ctl.c == "done":
            restarts_left -= 1
        ctl.do(k)
        sched.append(k)
    return {"kind": "th", "old": old, "pre": pre, "ops": label_appends(sched)}


class CtlX:
    """control skeleton of `stepF`, used only to enumerate schedules whose steps are enabled"""

    __slots__ = ("l", "rem", "napp", "c", "ev", "loaded", "nstore", "apps", "sawdone", "cancels", "fails",
                 "calls", "pend")

    def __init__(self, nstore):
        self.l, self.rem, self.napp = "-", 0, 0
        self.c, self.ev, self.loaded, self.sawdone = "-", False, False, False
        self.nstore = nstore
        self.apps = self.cancels = self.fails = self.calls = 0
        self.pend = False

    def copy(self):
        o = CtlX(self.nstore)
        for a in self.__slots__:
            setattr(o, a, getattr(self, a))
        return o

    def enabled(self, max_app, max_cancel, max_fail, max_calls):
        e = []
        if self.c in ("-", "done") and self.calls < max_calls:
            e.append("cstart")
        if self.c == "wait" and self.ev:
            e.append("cwait")
        if self.c == "read":
            e.append("cread")
        if self.c == "yield":
            e.append("cyield")
        if self.c in ("wait", "read", "yield") and self.cancels < max_cancel:
            e.append("ccancel")
        if self.l == "start":
            e.append("lcall" if HOIST else "lreset")
        if self.l == "called":
            e.append("lreset")
        if self.l == "iter":
            e.append("lappend" if self.rem else "ldone")
        if self.l == "notify":
            e.append("lnotify")
        if self.l == "notifyFinal":
            e.append("lfinal")
        # the inner history can raise in its call / inside the locked reset block, or when a further item
        # is requested (the first item is requested inside that block)
        if self.fails < max_fail and (self.l in ("start", "called")
                                      or (self.l == "iter" and self.rem and self.napp)):
            e.append("lfail")
        if self.pend:
            e.append("afin")
        elif self.apps < max_app and self.calls:
            e.append("app")
        return e

    def do(self, k):
        if k == "cstart":
            if self.l == "-":
                self.l = "start"
            self.c, self.ev, self.sawdone = "wait", True, False
            self.calls += 1
        elif k == "cwait":
            self.c = "read"
        elif k == "cread":
            self.ev = False
            self.sawdone = self.loaded
            self.c = "yield"
        elif k == "cyield":
            self.c = "done" if self.sawdone else "wait"
        elif k == "ccancel":
            self.c = "done"
            self.cancels += 1
        elif k == "lcall":
            self.l, self.rem = "called", self.nstore     # what an eager inner history reads now
        elif k == "lreset":
            if not (self.l == "called" and CtlX.eager):
                self.rem = self.nstore
            self.l = "iter"
        elif k == "lappend":
            self.l, self.rem, self.napp = "notify", self.rem - 1, self.napp + 1
        elif k == "lnotify":
            self.l, self.ev = "iter", True
        elif k == "ldone":
            self.l, self.loaded = "notifyFinal", True
        elif k == "lfinal":
            self.l, self.ev = "fin", True
        elif k == "lfail":
            self.l, self.rem = "iter", 0
            self.fails += 1
        elif k == "app":
            self.apps += 1
            self.nstore += 1
            self.pend = self.split
        elif k == "afin":
            self.pend = False

    split = False     # True: the return of the appending thread (`afin`) is a step of its own
    eager = False     # kind of inner history of the case being generated


def all_schedules_x(nstore, depth, max_app, max_cancel=0, max_fail=0, max_calls=1, split=False, eager=False):
    """maximal schedules (length == depth, or nothing enabled) of enabled steps of the repaired code"""
    out = []

    def go(ctl, sched):
        en = ctl.enabled(max_app, max_cancel, max_fail, max_calls)
        if len(sched) == depth or not en:
            out.append(list(sched))
            return
        for k in en:
            c2 = ctl.copy()
            c2.do(k)
            sched.append(k)
            go(c2, sched)
            sched.pop()

    CtlX.split, CtlX.eager = split, eager
    try:
        go(CtlX(nstore), [])
    finally:
        CtlX.split, CtlX.eager = False, False
    return out


def label_apps(sched):
    """name the appended strings; an `app` whose thread is not let go explicitly returns at once"""
    n = 0
    ops = []
    explicit = "afin" in sched
    for k in sched:
        if k == "app":
            n += 1
            ops.append(["app", "new%d" % n])
            if not explicit:
                ops.append(["afin"])
        else:
            ops.append([k])
    return ops


def thx_exhaustive(tier):
    # (old, pre, depth, appends, cancellations, failures of the inner history, load() calls)
    if tier == "quick":
        plan = [([], [], 40, 0, 0, 0, 1), (["o1"], [], 40, 0, 0, 0, 1), ([], ["p1"], 7, 1, 0, 0, 1),
                (["o1", "o2"], [], 8, 1, 0, 0, 1), (["o1"], [], 6, 2, 0, 0, 1),
                (["o1"], [], 6, 1, 1, 0, 2), (["o1", "o2"], [], 9, 0, 0, 1, 1), (["o1"], [], 6, 1, 0, 1, 1),
                (["o1"], [], 6, 1, 0, 0, 1, True)]
    else:
        plan = [([], [], 40, 0, 0, 0, 2), (["o1"], [], 40, 0, 0, 0, 1), ([], ["p1"], 20, 0, 0, 0, 2),
                (["o1", "o2"], [], 40, 0, 0, 0, 1), ([], ["p1"], 11, 1, 0, 0, 2), (["o1", "o2"], [], 11, 1, 0, 0, 1),
                (["o1"], ["p1"], 9, 1, 1, 0, 2), (["o1"], [], 9, 2, 0, 0, 2), ([], [], 8, 2, 1, 0, 2),
                (["o1", "o2"], [], 13, 0, 0, 1, 1), (["o1", "o2"], [], 9, 1, 1, 1, 2),
                (["o1"], [], 9, 1, 0, 0, 1, True), ([], ["p1"], 8, 2, 0, 0, 1, True)]
    for old, pre, depth, apps, cancels, fails, calls, *split in plan:
        for sched in all_schedules_x(len(old) + len(pre), depth, apps, cancels, fails, calls, bool(split)):
            yield {"kind": "thx", "old": old, "pre": pre, "ops": label_apps(sched)}
    # the second kind of inner history: it reads its storage when load_history_strings() is CALLED (FileHistory)
    eplan = ([(["o1", "o2"], [], 8, 1, 0, 0, 1), (["o1"], [], 6, 1, 0, 0, 1, True), (["o1"], [], 7, 0, 0, 1, 1)]
             if tier == "quick" else
             [(["o1", "o2"], [], 11, 1, 0, 0, 1), (["o1"], [], 9, 1, 0, 0, 1, True), (["o1", "o2"], [], 11, 0, 0, 1, 1),
              ([], ["p1"], 9, 2, 1, 0, 2)])
    for old, pre, depth, apps, cancels, fails, calls, *split in eplan:
        for sched in all_schedules_x(len(old) + len(pre), depth, apps, cancels, fails, calls, bool(split), True):
            yield {"kind": "thx", "old": old, "pre": pre, "eager": True, "ops": label_apps(sched)}


def rand_thx_case(rng):
    old = ["o%d" % i for i in range(rng.choice([0, 1, 2, 3, 5]))]
    pre = ["p%d" % i for i in range(rng.choice([0, 0, 1, 2]))]
    ctl = CtlX(len(old) + len(pre))
    sched = []
    max_app = rng.choice([0, 1, 2, 3, 4])
    max_cancel = rng.choice([0, 0, 1, 2])
    max_fail = rng.choice([0, 0, 0, 1])
    max_calls = rng.choice([1, 2, 3])
    CtlX.split = rng.random() < 0.5
    CtlX.eager = rng.random() < 0.5
    try:
        case = _rand_thx_body(rng, old, pre, ctl, sched, max_app, max_cancel, max_fail, max_calls)
        case["eager"] = CtlX.eager
        return case
    finally:
        CtlX.split, CtlX.eager = False, False


def _rand_thx_body(rng, old, pre, ctl, sched, max_app, max_cancel, max_fail, max_calls):
    for _ in range(rng.choice([10, 20, 40, 80])):
        en = ctl.enabled(max_app, max_cancel, max_fail, max_calls)
        if not en:
            break
        if rng.random() < 0.05:
            # a disabled step must be a no-op on both sides
            k = rng.choice(["cwait", "cread", "cyield", "ccancel", "lcall", "lreset", "lappend", "lnotify", "ldone",
                            "lfinal"])
            if k not in ctl.enabled(9, 9, 0, 9):
                sched.append(k)
                continue
        weights = [(0.3 if k in ("app", "ccancel", "lfail") else 1.0) for k in en]
        k = rng.choices(en, weights)[0]
        ctl.do(k)
        sched.append(k)
    return {"kind": "thx", "old": old, "pre": pre, "ops": label_apps(sched)}


def rand_th2_case(rng):
    old = ["o%d" % i for i in range(rng.choice([0, 0, 1, 2]))]
    pre = ["p0"] if rng.random() < 0.2 else []
    n = rng.choice([2, 2, 3])
    ops = [["c", 0, "start"]]
    lsteps = ["reset", "snap", "append", "notify", "set", "done", "final"]
    for _ in range(rng.choice([10, 20, 40, 70])):
        r = rng.random()
        if r < 0.45:
            ops.append(["l", rng.choice(lsteps)])
        else:
            ops.append(["c", rng.randrange(n), rng.choice(["start", "wait", "wait", "read", "read", "yield", "yield"])])
    return {"kind": "th2", "old": old, "pre": pre, "ops": ops}


class Ctl2:
    """control skeleton of the multi-consumer system, used only to enumerate enabled schedules"""

    def __init__(self, nstore, ncons):
        self.l, self.rem, self.loaded, self.nstore = "-", 0, False, nstore
        self.left = 0      # event.set() calls left in the current loop (approximation)
        self.c = ["-"] * ncons
        self.saw = [False] * ncons

    def copy(self):
        o = Ctl2(self.nstore, len(self.c))
        o.l, o.rem, o.loaded, o.left = self.l, self.rem, self.loaded, self.left
        o.c = list(self.c)
        o.saw = list(self.saw)
        return o

    def enabled(self):
        e = []
        for i, c in enumerate(self.c):
            if c == "-":
                if i == 0 or self.c[i - 1] != "-":
                    e.append(["c", i, "start"])
            elif c in ("wait", "read", "yield"):
                e.append(["c", i, c])
        m = {"start": "reset", "called": "snap", "notify": "notify", "notifyFinal": "final", "loop": "set"}
        if self.l in m:
            e.append(["l", m[self.l]])
        if self.l == "iter":
            e.append(["l", "append" if self.rem else "done"])
        return e

    def do(self, op):
        if op[0] == "c":
            i, w = op[1], op[2]
            if w == "start":
                self.c[i] = "wait"
                if self.l == "-":
                    self.l = "start"
            elif w == "wait":
                self.c[i] = "read"      # may be a stutter in reality (event not set): harmless
            elif w == "read":
                self.c[i] = "yield"
                self.saw[i] = self.loaded
            else:
                self.c[i] = "done" if self.saw[i] else "wait"
        else:
            w = op[1]
            if w == "reset":
                self.l = "called"
            elif w == "snap":
                self.l, self.rem = "iter", self.nstore
            elif w == "append":
                self.l, self.rem = "notify", self.rem - 1
            elif w in ("notify", "final"):
                n = sum(1 for c in self.c if c in ("wait", "read", "yield"))
                after = "fin" if self.loaded else "iter"
                self.l, self.left = ("loop", n - 1) if n else (after, 0)
            elif w == "set":
                if self.left > 0:
                    self.left -= 1
                else:
                    self.l = "fin" if self.loaded else "iter"
            elif w == "done":
                self.l, self.loaded = "notifyFinal", True


def th2_exhaustive(nstore, ncons, depth):
    """maximal schedules (length == depth, or nothing enabled) of enabled steps; the skeleton does not
    track the events, so a "wait" step may be a stutter (event not set) - on both sides"""
    out = []

    def go(ctl, sched):
        en = ctl.enabled()
        if len(sched) == depth or not en:
            out.append(list(sched))
            return
        for op in en:
            c2 = ctl.copy()
            c2.do(op)
            sched.append(op)
            go(c2, sched)
            sched.pop()

    go(Ctl2(nstore, ncons), [])
    return out


def th2_systematic(tier):
    """both consumers drained and waiting, then every interleaving of the loader's remaining steps with
    the steps of the consumers (the skeleton does not track events, so some steps are stutters)"""
    def c(i, n=1):
        return [["c", i, w] for w in ("wait", "read", "yield")] * n

    for old in ([], ["o1"]):
        k = len(old)
        prefix = [["c", 0, "start"], ["c", 1, "start"], ["l", "reset"], ["l", "snap"]]
        prefix += ([["l", "append"], ["l", "notify"], ["l", "set"], ["l", "set"]]) * k + c(0) + c(1)
        ltail = [["l", "done"], ["l", "final"], ["l", "set"], ["l", "set"]]
        for first in (0, 1):
            ctail = c(first)
            n = len(ltail) + len(ctail)
            for pos in itertools.combinations(range(n), len(ctail)):
                ops, li, ci = [], 0, 0
                for j in range(n):
                    if j in pos:
                        ops.append(ctail[ci]); ci += 1
                    else:
                        ops.append(ltail[li]); li += 1
                yield {"kind": "th2", "old": old, "pre": [], "ops": prefix + ops + c(1 - first)}


# -- base class / in-memory backends, several writers
MEM_OPS = [["app", "x"], ["load"], ["get"], ["gnew"], ["gnext"]]


def mem_exhaustive(tier):
    depth = 4 if tier == "quick" else 5
    for init in ([], ["a", "b"]):
        for n in range(depth + 1):
            for tup in itertools.product(range(len(MEM_OPS)), repeat=n):
                ops, k = [], 0
                for i in tup:
                    if MEM_OPS[i][0] == "app":
                        k += 1
                        ops.append(["app", "n%d" % k])
                    else:
                        ops.append(list(MEM_OPS[i]))
                if init or n <= depth - 1:
                    yield {"kind": "mem", "backend": "mem", "init": init, "ops": ops}
    for n in range(4):
        for tup in itertools.product(range(len(MEM_OPS)), repeat=n):
            yield {"kind": "mem", "backend": "dummy", "init": [],
                   "ops": [["app", "z"] if MEM_OPS[i][0] == "app" else list(MEM_OPS[i]) for i in tup]}


def rand_mem_case(rng):
    init = [rand_string(rng, 4) for _ in range(rng.choice([0, 1, 2, 4]))]
    ops = []
    for _ in range(rng.randrange(1, 14)):
        k = rng.choice(["app", "app", "load", "get", "gnew", "gnext", "gnext", "gnext"])
        ops.append(["app", rand_string(rng, 4)] if k == "app" else [k])
    return {"kind": "mem", "backend": "mem" if rng.random() < 0.9 else "dummy", "init": init, "ops": ops}


def mw_exhaustive(tier):
    """two processes with one entry each (one or two lines): every order of their write() calls; three
    processes / two entries per process: every order up to the tier's length"""
    ents = ["a", "a\nb", "", "+"]
    for e0 in ents:
        for e1 in ents:
            n = 6 if tier == "quick" else 7
            for order in itertools.product([0, 1], repeat=n):
                yield {"kind": "mw", "procs": [[["T", e0]], [["U", e1]]], "order": list(order)}
    n = 5 if tier == "quick" else 7
    for order in itertools.product([0, 1, 2], repeat=n):
        yield {"kind": "mw", "procs": [[["T", "a"], ["T", "x\ny"]], [["U", "b"]], [["V", "\n"]]], "order": list(order)}


def rand_mw_case(rng):
    np_ = rng.choice([1, 2, 2, 3])
    procs = [[[rng.choice(TS_POOL), rand_string(rng, 5)] for _ in range(rng.choice([1, 1, 2, 3]))] for _ in range(np_)]
    total = sum(len(s.split("\n")) + 1 for p in procs for _, s in p)
    if rng.random() < 0.4:
        # whole records alternating: the situation the property speaks about
        order = []
        left = [[len(s.split("\n")) + 1 for _, s in p] for p in procs]
        while any(left):
            i = rng.choice([j for j in range(np_) if left[j]])
            order += [i] * left[i].pop(0)
    else:
        order = [rng.randrange(np_ + (1 if rng.random() < 0.1 else 0)) for _ in range(total + rng.randrange(0, 4))]
    return {"kind": "mw", "procs": procs, "order": order}


_EXHAUSTIVE_DONE = set()


def cases(tier, rng):
    """exhaustive small scope (once per process and tier: the source-change escalation calls this again
    with further seeds, which then add only random cases), then seeded random cases"""
    if tier in _EXHAUSTIVE_DONE:
        yield from random_cases(tier, rng)
        return
    if tier == "thorough" and "quick" in _EXHAUSTIVE_DONE:
        # the failing-input search of a quick run whose proofs / correspondence broke: bounded extra search
        yield from itertools.islice(random_cases("thorough", rng), 0, None, 3)
        return
    _EXHAUSTIVE_DONE.add(tier)
    yield from exhaustive_cases(tier, rng)
    yield from random_cases(tier, rng)


def exhaustive_cases(tier, rng):
    quick = tier == "quick"
    # --- codec
    yield from codec_cases(tier, rng)
    # --- files, exhaustive small scope
    for s in strings_upto(ALPHA, 3 if quick else 4):
        yield entries_case([s])
    pair = list(strings_upto(ALPHA, 1 if quick else 2))
    for a in pair:
        for b in pair:
            yield entries_case([a, b], insts=[0, 1])
    # --- ThreadedHistory around an instance with a past (loaded inline before / written to through
    #     the wrapper or by another instance): small scope over the order of the four operations
    for pre_load in (False, True):
        for later in (["tapp", 0, "U", "b\nc"], ["app", 1, "U", "b"], ["app", 0, "U", "+x"]):
            for again in (False, True):
                ops = [["app", 0, "T", "a"]]
                if pre_load:
                    ops.append(["load", 0])
                ops.append(list(later))
                ops.append(["tload", 0])
                if again:
                    ops += [["tapp", 1, "V", "\u2028z"], ["tload", 1], ["tload", 0]]
                ops += [["fresh"], ["load", 0], ["get", 0]]
                yield {"kind": "file", "ops": ops}
    if not quick:
        one = list(strings_upto(ALPHA, 1))
        for a in one:
            for b in one:
                for c in one:
                    yield entries_case([a, b, c], insts=[0, 1, 0])
    # every line-boundary character of str.splitlines() (and the format's own '+', '#'): 1 entry len<=2,
    # two entries of one character each
    for s1 in strings_upto(SEP_ALPHA, 2):
        if not all(c in ALPHA for c in s1):
            yield entries_case([s1])
    for a in SEP_ALPHA:
        for b in SEP_ALPHA:
            if not (a in ALPHA and b in ALPHA):
                yield entries_case([a, b], insts=[0, 1])
    # entries made of '+' / newlines only, the empty entry repeated
    for e in (["+++"], ["\n\n\n"], ["", "", ""], ["+\n+\n+"], ["\n+"], ["+", ""], ["", "+"]):
        yield entries_case(e, insts=[0, 1, 0][:len(e)])
    # foreign lines (comments of other tools, blank lines, text) in front of / between / behind records
    for fl in FOREIGN_LINES:
        for e in ("a", "+\n#", ""):
            yield {"kind": "file", "ops": [["rawapp", list(fl)], ["app", 0, "T", e], ["rawapp", list(fl + fl)],
                                           ["app", 1, "T", "x\ny"], ["rawapp", list(fl)], ["fresh"], ["truncall"]]}
    # recovery after a torn write: every cut inside the last record of a 2-entry file, then one more append
    base = ["a\n+", "\U0001F600#"] if quick else ["a\n+", "\U0001F600#", "\u2028\r", "", "\n"]
    for e in base:
        n = rec_len("T", e)
        for j in range(n + 2):
            yield {"kind": "file", "ops": [["app", 0, "T", "x"], ["app", 1, "T", e], ["cutb", j],
                                           ["app", 2, "T", "+z\n#"], ["fresh"], ["truncall"],
                                           ["load", 0], ["get", 0], ["get", 1], ["get", 2]]}
    # raw garbage files
    for k in range(0, (3 if quick else 4) + 1):
        for tup in itertools.product(RAW_ALPHA, repeat=k):
            yield {"kind": "file", "ops": [["raw", list(tup)], ["fresh"], ["truncall"]]}
    # --- base class with the in-memory backends; several processes writing one file
    yield from mem_exhaustive(tier)
    yield from mw_exhaustive(tier)
    # --- threaded, exhaustive schedules: the code as it is in the tree ...
    if not FIXED:
        yield from th_exhaustive(tier)
    # ... and the code with the repair of F5 (the tree's own, or the tree + the proposed diff)
    if fixed_module() is not None:
        yield from thx_exhaustive(tier)
        yield from thm_exhaustive(tier)
    # --- several simultaneous load() calls
    yield from th2_systematic(tier)
    for nstore, ncons, depth in ([(0, 2, 7)] if quick else [(0, 2, 10), (1, 2, 10)]):
        old = ["o%d" % i for i in range(nstore)]
        for sched in th2_exhaustive(nstore, ncons, depth):
            yield {"kind": "th2", "old": old, "pre": [], "ops": sched}


def random_cases(tier, rng):
    quick = tier == "quick"
    yield from codec_random(tier, rng)
    for _ in range(100 if quick else 3000):
        yield rand_th2_case(rng)
    for _ in range(600 if quick else 12000):
        yield rand_file_case(rng)
    for _ in range(300 if quick else 6000):
        yield rand_raw_case(rng)
    for _ in range(200 if quick else 2000):
        yield rand_mem_case(rng)
    for _ in range(200 if quick else 2000):
        yield rand_mw_case(rng)
    for n in range(300 if quick else 8000):
        if not FIXED:
            yield rand_th_case(rng, with_appends=rng.random() < 0.6)
        if fixed_module() is not None and (quick or FIXED or n % 2 == 0):
            yield rand_thx_case(rng)
    if fixed_module() is not None:
        for _ in range(60 if quick else 1500):
            yield rand_thm_case(rng)


def nontrivial(case):
    k = case["kind"]
    if k == "file":
        return any((op[0] == "app" and op[3]) or (op[0] == "raw" and op[1]) for op in case["ops"])
    if k in ("th", "thx"):
        return any(op[0] in ("cwait", "cread", "cyield") for op in case["ops"])
    if k in ("th2", "thm"):
        return len({op[1] for op in case["ops"] if op[0] == "c" and op[2] == "start"}) >= 2
    if k == "mem":
        return any(op[0] == "app" for op in case["ops"]) or bool(case["init"])
    if k == "mw":
        return len(case["procs"]) >= 2 and len(set(case["order"])) >= 2
    return True


def distribution(cases):
    d = {"kind": {}, "file_ops": {}, "th_steps": {}, "th_len": {}, "thx_steps": {}, "thx_len": {},
         "entries_per_file": {}, "th2_consumers": {}, "th2_len": {}}
    for c in cases:
        k = c["kind"]
        d["kind"][k] = d["kind"].get(k, 0) + 1
        if k == "file":
            n = 0
            for op in c["ops"]:
                d["file_ops"][op[0]] = d["file_ops"].get(op[0], 0) + 1
                n += op[0] == "app"
            d["entries_per_file"][str(n)] = d["entries_per_file"].get(str(n), 0) + 1
        elif k in ("th", "thx"):
            for op in c["ops"]:
                d[k + "_steps"][op[0]] = d[k + "_steps"].get(op[0], 0) + 1
            b = str(len(c["ops"]) // 5 * 5)
            d[k + "_len"][b] = d[k + "_len"].get(b, 0) + 1
        elif k in ("th2", "thm"):
            n = str(len({op[1] for op in c["ops"] if op[0] == "c" and op[2] == "start"}))
            d["th2_consumers"][n] = d["th2_consumers"].get(n, 0) + 1
            b = str(len(c["ops"]) // 5 * 5)
            d["th2_len"][b] = d["th2_len"].get(b, 0) + 1
    return d


def sample_view(case):
    if case["kind"] == "codec":
        return {"kind": "codec", "strs": case["strs"][:3], "bytes": case["bytes"][:3],
                "n": len(case["strs"]) + len(case["bytes"])}
    return case


if __name__ == "__main__":
    os.makedirs(SCRATCH, exist_ok=True)
    try:
        rc = core.main(sys.modules[__name__])
    finally:
        # scratch dirs of this process and of finished workers
        for name in os.listdir(SCRATCH) if os.path.isdir(SCRATCH) else []:
            if name.startswith("p") and name[1:].isdigit():
                pid = int(name[1:])
                alive = os.path.exists("/proc/%d" % pid) and pid != os.getpid()
                if not alive:
                    shutil.rmtree(os.path.join(SCRATCH, name), ignore_errors=True)
    sys.exit(rc)
