#!/venv/bin/python
"""C13 - persisted history: correspondence with Ptk.Model.C13 + property oracle.

Four kinds of cases
  file   : FileHistory instances on one real file (scratch dir under /verif/.work/c13):
           appends alternating between instances, History.load()/get_strings(),
           fresh-instance loads, load at EVERY truncation offset, torn write + recovery,
           raw (garbage) file contents
  codec  : str.encode('utf-8') / bytes.decode('utf-8', 'replace') vs the model's codec
  th     : ThreadedHistory driven step by step under an explicit schedule.  The schedule is
           enforced from the harness side only (no source hooks): `prompt_toolkit.history.threading`
           is replaced, for the duration of one case, by a shim whose Lock / Event / Thread pause at
           the synchronisation points, and the inner History pauses inside load_history_strings.
           After the schedule all threads run freely and a load() in progress must complete correctly.
  th2    : the same with two or three simultaneous load() calls (model THn); the loader thread also
           stops after every single event.set().  The model takes the flag Gen.C13.notifyCopies, which
           harness/gen_c13.py determines from the current tree by a behavioural probe.
"""
from __future__ import annotations

import asyncio
import itertools
import os
import shutil
import sys
import threading
from concurrent.futures import ThreadPoolExecutor

sys.path.insert(0, os.path.dirname(os.path.abspath(__file__)))
import core
from core import enc_str, enc_list

import prompt_toolkit.history as H
from prompt_toolkit.history import FileHistory, History, ThreadedHistory

ID = "C13"
DRIVER = "drv_c13"
PROPS = ["Ptk.Props.C13"]
ANCHORS = ["src/prompt_toolkit/history.py"]
LEVEL_TEXT = ("Lean 4 theorems over an executable model of history.py: (a) FileHistory byte format with a concrete "
              "UTF-8 encoder and CPython-compatible replacing decoder: load(store*(es)) = reverse(es) for all strings, "
              "truncation at every byte offset keeps every completed entry and adds at most one damaged newest entry, "
              "later appends re-frame correctly after a torn write or after arbitrary garbage, several caching "
              "instances on one file; (b) ThreadedHistory as a transition system at lock/event granularity: for every "
              "interleaving in which no append_string overlaps a load, the consumer yields exactly the inline sequence "
              "and terminates (budget + no lost wake-up); the overlapping case is refuted on concrete schedules (known "
              "finding F5a-c); several simultaneous load() calls at per-event.set() granularity: safety for both "
              "variants of the notify loop, no lost wake-up and a termination bound when it iterates over a copy, and a "
              "proved lost wake-up "
              "(F5d, fix proposed) for the live-list iteration of the current code. Tied to /repo on every run by a "
              "generated flag (behavioural probe of the notify loop), a differential correspondence (real files, every "
              "truncation offset, real threads under enforced schedules) and the property oracle")
LEVEL_NOTE = ("trusted: Lean kernel, axioms propext/Classical.choice/Quot.sound only; hand-written model (validated by "
              "the correspondence, not proved equal to the Python); CPython bytes/str/codecs/file semantics; POSIX "
              "append writes are contiguous; threaded part is at atomic-step granularity (partial)")
TECHNIQUE = "Lean 4 proof over hand-written executable model + differential correspondence with the real code"
RULE = ("file: exhaustive entry lists over the alphabet {a,+,#,LF,CR,U+2028,NUL,U+1F600} (bounds per tier) with a "
        "fresh load and a load at every truncation offset, then seeded random op sequences (appends alternating "
        "between 4 instances, load/get_strings, cut at a random byte + further appends, raw garbage files); "
        "codec: boundary code points and random garbage bytes; th: every schedule of the loader / consumer / "
        "appender steps up to the tier's depth from several initial stores, then seeded random complete schedules; "
        "th2: two or three simultaneous load() calls, the loader stopping after every event.set(): all schedules up "
        "to the tier's depth + random; after every th/th2 schedule the threads run freely and every load() call in "
        "progress must complete with the inline sequence. non-trivial = a file case with at least one non-empty "
        "entry or raw bytes, a codec case, a th case in which the consumer takes at least one step, a th2 case "
        "with at least two load() calls")
EXHAUSTIVE = True
EXHAUSTIVE_SCOPE = {
    "quick": "file: 1 entry len<=3, 2 entries len<=1, raw files len<=3 over 9 byte symbols, every truncation "
             "offset of each; th: ALL complete loader/consumer interleavings without appends for stores of 0 and 1 "
             "items (2 items: all prefixes of length 12); all schedules with one concurrent append up to depth "
             "7-8; two simultaneous load() calls: "
             "all schedules up to depth 7 (per-event.set() granularity) + all interleavings of the final notify "
             "loop with a finishing consumer",
    "thorough": "file: 1 entry len<=4, 2 entries len<=2, 3 entries len<=1, raw files len<=4 over 9 byte symbols, "
                "every truncation offset of each; th: ALL complete interleavings without appends for stores of "
                "0, 1 and 2 items (3 items: all prefixes of length 18; with a second load() for 0-1 items); all "
                "schedules up to depth 12 with one "
                "concurrent append from 3 initial stores; depth 10 with two appends; two simultaneous load() "
                "calls: all schedules up to depth 10 for stores of 0 and 1 items",
}
TRUSTED = ["harness/c13.py compares file bytes after every append, the loaded lists at every truncation offset, "
           "and (strs, loaded, yielded items, events, registered event list, store, program counters) after every "
           "scheduled step",
           "harness/gen_c13.py: behavioural probe whether the notify loops iterate over a copy (-> Gen/C13.lean)",
           "Ptk/Model/C13.lean is a hand translation of history.py (correspondence-checked)",
           "the schedule shim (replacement of history.threading and the gated inner History) pauses threads only "
           "at synchronisation points; it does not change what the code computes"]
ASSUMPTIONS = ["CPython: open(...,'ab').write appends contiguously; iteration over a binary file splits after 0x0A only",
               "bytes.decode('utf-8','replace') = the model's decoder (compared on garbage every run)",
               "str(datetime.now()) contains no newline (the correspondence injects the timestamp; the oracle uses the real clock)",
               "lone surrogates are outside the alphabet (str.encode raises; Lean Char cannot hold them)",
               "threaded part: every code section between two synchronisation points (lock block, event.wait, each "
               "event.set, the inner load_history_strings call, store_string) is atomic; the inner history takes its "
               "snapshot in one step (true for FileHistory and InMemoryHistory); a Python list iterator is an index "
               "into the live list"]
PARTIAL_SCOPE = ["ThreadedHistory: real preemption inside a step and an inner history that reads lazily are not modelled",
                 "several simultaneous load() calls: modelled without append_string; no-lost-wake-up and the "
                 "termination bound are proved for the notify loop over a copy (proposed fix), for the current "
                 "live-list loop the lost wake-up is proved instead; a cancelled (aclose) load() is not modelled",
                 "entries appended while a load() is in progress: property is FALSE (F5, known findings) - theorems "
                 "cover exactly the schedules without such an overlap",
                 "concurrent writers from different processes (interleaved partial writes) not modelled",
                 "InMemoryHistory / DummyHistory only through the base-class model"]

SCRATCH = os.path.join(core.WORK, "c13")
ALPHA = ["a", "+", "#", "\n", "\r", "\u2028", "\x00", "\U0001F600"]
RAND_ALPHA = ["a", "b", "+", "+", "#", "\n", "\n", "\n", "\r", "\u2028", "\u2029", "\x85", "\x0b", "\x0c",
              "\x1c", "\x00", "\U0001F600", "\U0010FFFF", "\ud7ff", "\ue000", "\uffff", "\ufeff", "\ufffd",
              "\u00e9", "\u4e16", " ", "\t", "\x7f", "\x80", "\u07ff", "\u0800", "\U00010000", "\x1b"]
RAW_ALPHA = [0x0A, 0x2B, 0x23, 0x61, 0xE2, 0x80, 0xA8, 0xF0, 0xFF]
RAW_RAND = [0x0A, 0x0A, 0x2B, 0x2B, 0x23, 0x61, 0x20, 0x0D, 0x00, 0xC2, 0xC0, 0xC1, 0xE0, 0xE2, 0xED, 0xEF, 0xF0,
            0xF4, 0xF5, 0xFF, 0x80, 0x8F, 0x90, 0x9F, 0xA0, 0xA8, 0xBF, 0x7F]
TS_POOL = ["2026-09-30 03:13:04.179440", "2026-09-30 03:13:04", "1999-12-31 23:59:59.000001", "T"]


# ------------------------------------------------------------------ protocol helpers
def enc_bytes(b) -> str:
    return "b:" + ",".join(str(x) for x in b)


def enc_strs(l) -> str:
    return enc_list(l, enc_str)


# ------------------------------------------------------------------ real code: files
_dir = None


def scratch() -> str:
    global _dir
    d = os.path.join(SCRATCH, "p%d" % os.getpid())
    if _dir != d:
        os.makedirs(d, exist_ok=True)
        _dir = d
    return d


class _FixedClock:
    """stands in for the `datetime` module inside history.py during the correspondence: `datetime.now()`
    (also utcnow / today) returns the case's timestamp string; everything else is the real module"""

    def __init__(self):
        import datetime as real

        self.ts = "T"
        self._real = real
        outer = self

        class _dt(real.datetime):
            @classmethod
            def now(cls, tz=None):
                return outer.ts

            @classmethod
            def utcnow(cls):
                return outer.ts

            @classmethod
            def today(cls):
                return outer.ts

        self.datetime = _dt

    def __getattr__(self, name):
        return getattr(self._real, name)


def collect_load(h: History):
    async def go():
        return [x async for x in h.load()]

    return asyncio.run(go())


def safe_fresh_load(path):
    try:
        return enc_strs(list(FileHistory(path).load_history_strings()))
    except Exception as e:  # "loading never fails"
        return "err:" + type(e).__name__


def read_bytes(path):
    if not os.path.exists(path):
        return b""
    with open(path, "rb") as f:
        return f.read()


def write_bytes(path, data):
    with open(path, "wb") as f:
        f.write(data)


def file_impl(case):
    d = scratch()
    path = os.path.join(d, "hist")
    tpath = os.path.join(d, "trunc")
    if os.path.exists(path):
        os.unlink(path)
    insts = {}

    def inst(i):
        if i not in insts:
            insts[i] = FileHistory(path)
        return insts[i]

    clock = _FixedClock()
    real_dt = H.datetime
    H.datetime = clock
    out = ["ok"]
    try:
        for op in case["ops"]:
            k = op[0]
            if k == "app":
                clock.ts = op[2]
                inst(op[1]).append_string(op[3])
                out.append(enc_bytes(read_bytes(path)))
            elif k == "load":
                out.append(enc_strs(collect_load(inst(op[1]))))
            elif k == "get":
                out.append(enc_strs(inst(op[1]).get_strings()))
            elif k == "fresh":
                out.append(safe_fresh_load(path))
            elif k == "truncall":
                data = read_bytes(path)
                res = []
                write_bytes(tpath, data)
                for n in range(len(data), -1, -1):
                    os.truncate(tpath, n)
                    res.append(safe_fresh_load(tpath))
                out.append(" | ".join(res[::-1]))
            elif k == "cutb":
                data = read_bytes(path)
                data = data[:max(0, len(data) - op[1])]
                write_bytes(path, data)
                out.append(enc_bytes(data))
            elif k == "raw":
                write_bytes(path, bytes(op[1]))
                out.append("ok")
            else:
                raise ValueError(op)
    finally:
        H.datetime = real_dt
    return out


def file_model_lines(case):
    out = ["fnew"]
    for op in case["ops"]:
        k = op[0]
        if k == "app":
            out.append(f"app {op[1]} {enc_str(op[2])} {enc_str(op[3])}")
        elif k in ("load", "get"):
            out.append(f"{k} {op[1]}")
        elif k in ("fresh", "truncall"):
            out.append(k)
        elif k == "cutb":
            out.append(f"cutb {op[1]}")
        elif k == "raw":
            out.append("fraw " + enc_bytes(op[1]))
        else:
            raise ValueError(op)
    return out


# ------------------------------------------------------------------ real code: codec
def codec_model_lines(case):
    return ["enc " + enc_str(s) for s in case["strs"]] + ["dec " + enc_bytes(b) for b in case["bytes"]]


def codec_impl(case):
    return ([enc_bytes(s.encode("utf-8")) for s in case["strs"]]
            + [enc_str(bytes(b).decode("utf-8", errors="replace")) for b in case["bytes"]])


# ------------------------------------------------------------------ real code: threaded, scheduled
_tls = threading.local()


def _role():
    return getattr(_tls, "role", None)


class Sched:
    """All controlled threads stop at named points; the harness lets exactly one of them run to
    its next point at a time."""

    def __init__(self):
        self.cv = threading.Condition()
        self.at = {}
        self.grant = {}
        self.finished = set()
        self.free = False
        self.set_pauses = False  # also stop the loader after every single event.set()

    def pause(self, role, point):
        with self.cv:
            if self.free:
                return
            self.at[role] = point
            self.cv.notify_all()
            n = 0
            while not self.free and self.grant.get(role, 0) == 0:
                self.cv.wait(timeout=1.0)
                n += 1
                if n > 60:
                    self.free = True  # the harness is gone: let everything run out
                    self.cv.notify_all()
            if not self.free:
                self.grant[role] -= 1

    def finish(self, role):
        with self.cv:
            self.at.pop(role, None)
            self.finished.add(role)
            self.cv.notify_all()

    def release(self, role):
        with self.cv:
            self.at.pop(role)
            self.grant[role] = self.grant.get(role, 0) + 1
            self.cv.notify_all()

    def wait_quiet(self, role, timeout=90.0):
        with self.cv:
            ok = self.cv.wait_for(lambda: role in self.at or role in self.finished, timeout=timeout)
            if not ok:
                raise TimeoutError(f"role {role} did not reach a synchronisation point")

    def set_free(self):
        with self.cv:
            self.free = True
            self.cv.notify_all()


class GLock:
    def __init__(self, sched):
        self.s = sched
        self.l = threading.Lock()

    def __enter__(self):
        r = _role()
        if r is not None and r.startswith("C"):
            self.s.pause(r, "lock")
        self.l.acquire()
        return self

    def __exit__(self, *a):
        self.l.release()
        r = _role()
        if r is not None:
            self.s.pause(r, "unlocked")
        return False

    def acquire(self, *a, **k):
        return self.l.acquire(*a, **k)

    def release(self):
        self.l.release()


class GEvent:
    def __init__(self, sched):
        self.s = sched
        self.e = threading.Event()
        self.owner = getattr(_tls, "owner", None)  # which load() call created it

    def set(self):
        self.e.set()
        if self.s.set_pauses and _role() == "L":
            self.s.pause("L", "set")

    def clear(self):
        self.e.clear()

    def is_set(self):
        return self.e.is_set()

    def wait(self, timeout=None):
        r = _role()
        if r is None or not r.startswith("C") or self.s.free:
            return self.e.wait(timeout)
        self.s.pause(r, "wait")
        if self.s.free:
            return self.e.wait(timeout)
        return self.e.is_set()


def make_shim(sched):
    class GThread(threading.Thread):
        def run(self):
            _tls.role = "L"
            try:
                sched.pause("L", "start")
                super().run()
            finally:
                sched.finish("L")

    class Shim:
        Thread = GThread

        @staticmethod
        def Lock():
            return GLock(sched)

        @staticmethod
        def Event():
            return GEvent(sched)

    return Shim


class GatedHistory(History):
    """inner history: persistent list, snapshot on load (like InMemoryHistory / FileHistory),
    pausing the loader thread before the snapshot and before every item"""

    def __init__(self, sched, storage):
        super().__init__()
        self.s = sched
        self._storage = list(storage)

    def load_history_strings(self):
        gated = _role() == "L"
        if gated:
            self.s.pause("L", "called")
        snap = self._storage[::-1]
        for item in snap:
            if gated:
                self.s.pause("L", "yield")
            yield item
        if gated:
            self.s.pause("L", "end")

    def store_string(self, string):
        self._storage.append(string)


class ThRun:
    def __init__(self, old, pre):
        self.s = Sched()
        self.real_threading = H.threading
        H.threading = make_shim(self.s)
        self.inner = GatedHistory(self.s, old)
        self.th = ThreadedHistory(self.inner)
        for p in pre:
            self.th.append_string(p)
        self.final = False
        self.out = []
        self.cthread = None
        self.athread = None
        self.pending = None
        self.threads = []

    # -- consumer
    def _consume(self, out):
        loop = asyncio.new_event_loop()

        def init():
            _tls.role = "C"

        ex = ThreadPoolExecutor(max_workers=1, initializer=init)
        loop.set_default_executor(ex)

        async def go():
            async for item in self.th.load():
                out.append(item)

        try:
            loop.run_until_complete(go())
        finally:
            self.s.finish("C")
            ex.shutdown(wait=False)
            loop.close()

    def cons_active(self):
        return self.cthread is not None and "C" not in self.s.finished

    def step(self, op):
        s = self.s
        k = op[0]
        at = s.at
        if k == "cstart":
            if self.cons_active():
                return
            s.finished.discard("C")
            self.out = []
            self.cthread = threading.Thread(target=self._consume, args=(self.out,), daemon=True)
            self.threads.append(self.cthread)
            self.cthread.start()
            s.wait_quiet("C")
            s.wait_quiet("L")
        elif k == "cwait":
            if at.get("C") == "wait":
                s.release("C")
                s.wait_quiet("C")
        elif k == "cread":
            if at.get("C") == "lock":
                s.release("C")
                s.wait_quiet("C")
        elif k == "cyield":
            if at.get("C") == "unlocked":
                s.release("C")
                s.wait_quiet("C")
                if "C" in s.finished:
                    self.cthread.join(10)
        elif k in ("lreset", "lsnap", "lappend", "lnotify", "ldone", "lfinal"):
            need = {"lreset": "start", "lsnap": "called", "lappend": "yield", "lnotify": "unlocked",
                    "ldone": "end", "lfinal": "unlocked"}[k]
            if at.get("L") != need:
                return
            if k == "lnotify" and self.final:
                return
            if k == "lfinal" and not self.final:
                return
            if k == "ldone":
                self.final = True
            s.release("L")
            s.wait_quiet("L")
        elif k == "ains":
            if self.athread is not None:
                return
            string = op[1]

            def go():
                _tls.role = "A"
                try:
                    self.th.append_string(string)
                finally:
                    s.finish("A")

            s.finished.discard("A")
            self.pending = string
            self.athread = threading.Thread(target=go, daemon=True)
            self.threads.append(self.athread)
            self.athread.start()
            s.wait_quiet("A")
        elif k == "astore":
            if at.get("A") == "unlocked":
                s.release("A")
                s.wait_quiet("A")
                self.athread.join(10)
                self.athread = None
                self.pending = None
        else:
            raise ValueError(op)

    def line(self):
        s = self.s
        la = s.at.get("L")
        if self.th._load_thread is None:
            lpc = "-"
        elif "L" in s.finished:
            lpc = "fin"
        else:
            lpc = {"start": "start", "called": "called", "yield": "iter", "end": "iter",
                   "unlocked": "notifyFinal" if self.final else "notify"}[la]
        if self.cthread is None:
            cpc = "-"
        elif "C" in s.finished:
            cpc = "done"
        else:
            cpc = {"wait": "wait", "lock": "read", "unlocked": "yield"}[s.at.get("C")]
        if cpc in ("wait", "read", "yield"):
            evs = self.th._string_load_events
            ev = "1" if (len(evs) == 1 and evs[0].is_set()) else ("0" if len(evs) == 1 else "?%d" % len(evs))
        else:
            ev = "N"
            if self.th._string_load_events:
                ev = "?%d" % len(self.th._string_load_events)
        pend = enc_str(self.pending) if self.athread is not None else "N"
        return (f"L={lpc} C={cpc} ev={ev} loaded={1 if self.th._loaded else 0} pend={pend} "
                f"strs={enc_strs(self.th._loaded_strings)} out={enc_strs(self.out)} "
                f"store={enc_strs(self.inner._storage)}")

    def close(self):
        """observations are over: let every controlled thread run out (forcing completion even if the
        code under test would wait forever), then restore the real `threading` in history.py"""
        self.s.set_free()
        for n in range(400):
            alive = [t for t in self.threads if t.is_alive()]
            lt = self.th._load_thread
            if lt is not None and lt.is_alive():
                alive.append(lt)
            if not alive:
                break
            alive[0].join(0.05 if n else 0.3)
            if alive[0].is_alive():
                # a consumer that would poll its event forever: finish it from outside
                if lt is None or not lt.is_alive():
                    self.th._loaded = True
                for ev in list(self.th._string_load_events):
                    ev.set()
        H.threading = self.real_threading


class ThRun2:
    """several simultaneous load() calls; the loader additionally stops after every single
    event.set().  ops: ["c", i, "start"|"wait"|"read"|"yield"], ["l", "reset"|"snap"|"append"|"notify"|
    "set"|"done"|"final"]; an op whose thread is not at the matching point is a no-op."""

    NCONS = 3

    def __init__(self, old, pre):
        self.s = Sched()
        self.s.set_pauses = True
        self.real_threading = H.threading
        H.threading = make_shim(self.s)
        self.inner = GatedHistory(self.s, old)
        self.th = ThreadedHistory(self.inner)
        for p in pre:
            self.th.append_string(p)
        self.outs = {}
        self.cthreads = {}
        self.threads = []
        self.final = False

    def _consume(self, role, out):
        _tls.owner = role
        loop = asyncio.new_event_loop()

        def init():
            _tls.role = role

        ex = ThreadPoolExecutor(max_workers=1, initializer=init)
        loop.set_default_executor(ex)

        async def go():
            async for item in self.th.load():
                out.append(item)

        try:
            loop.run_until_complete(go())
        finally:
            self.s.finish(role)
            ex.shutdown(wait=False)
            loop.close()

    def step(self, op):
        s = self.s
        if op[0] == "c":
            role = "C%d" % op[1]
            what = op[2]
            if what == "start":
                if role in self.cthreads:
                    return
                self.outs[role] = []
                t = threading.Thread(target=self._consume, args=(role, self.outs[role]), daemon=True)
                self.cthreads[role] = t
                self.threads.append(t)
                t.start()
                s.wait_quiet(role)
                s.wait_quiet("L")
                return
            need = {"wait": "wait", "read": "lock", "yield": "unlocked"}[what]
            if s.at.get(role) == need:
                s.release(role)
                s.wait_quiet(role)
                if role in s.finished:
                    self.cthreads[role].join(10)
        elif op[0] == "l":
            what = op[1]
            need = {"reset": "start", "snap": "called", "append": "yield", "notify": "unlocked",
                    "final": "unlocked", "set": "set", "done": "end"}[what]
            if s.at.get("L") != need:
                return
            if what == "notify" and self.final:
                return
            if what == "final" and not self.final:
                return
            if what == "done":
                self.final = True
            s.release("L")
            s.wait_quiet("L")
        else:
            raise ValueError(op)

    def line(self):
        s = self.s
        la = s.at.get("L")
        if self.th._load_thread is None:
            lpc = "-"
        elif "L" in s.finished:
            lpc = "fin"
        else:
            lpc = {"start": "start", "called": "called", "yield": "iter", "end": "iter",
                   "unlocked": "notifyFinal" if self.final else "notify",
                   "set": "loopFinal" if self.final else "loop"}[la]
        evs = list(self.th._string_load_events)
        owners = [getattr(e, "owner", None) for e in evs]
        parts = []
        for i in range(self.NCONS):
            role = "C%d" % i
            if role not in self.cthreads:
                parts.append("- N 0")
                continue
            if role in s.finished:
                cpc, ev = "done", "N"
            else:
                cpc = {"wait": "wait", "lock": "read", "unlocked": "yield"}[s.at.get(role)]
                mine = [e for e in evs if getattr(e, "owner", None) == role]
                ev = ("1" if mine[0].is_set() else "0") if len(mine) == 1 else "?%d" % len(mine)
            parts.append(f"{cpc} {ev} {enc_strs(self.outs[role])}")
        ids = [o[1:] if isinstance(o, str) and o.startswith("C") else "?" for o in owners]
        return (f"L={lpc} loaded={1 if self.th._loaded else 0} strs={enc_strs(self.th._loaded_strings)} "
                f"events={enc_list(ids)} | " + " | ".join(parts))

    close = ThRun.close


def th2_run(case, finale=None):
    real_threading = H.threading
    out = []
    r = None
    try:
        r = ThRun2(case["old"], case["pre"])
        out.append(r.line())
        for op in case["ops"]:
            r.step(op)
            out.append(r.line())
        if finale:
            finale(r)
    finally:
        if r is not None:
            r.close()
        H.threading = real_threading
    return out


def th2_model_lines(case):
    out = ["nnew " + enc_strs(case["old"]) + " " + enc_strs(case["pre"])]
    for op in case["ops"]:
        out.append(f"nc {op[1]} {op[2]}" if op[0] == "c" else f"nl {op[1]}")
    return out


def _await_consumer(th, t, own_events, limit):
    """wait for a load() call running freely; it can be declared hung early when nobody is left to
    wake it: the loader thread has ended and the consumer's event stays unset"""
    import time

    t0 = time.time()
    stuck_since = None
    while t.is_alive() and time.time() - t0 < limit:
        t.join(0.1)
        lt = th._load_thread
        evs = own_events()
        hopeless = (lt is not None and not lt.is_alive() and evs and not any(e.is_set() for e in evs))
        if hopeless:
            stuck_since = stuck_since or time.time()
            if time.time() - stuck_since > 6.0:
                break
        else:
            stuck_since = None
    return not t.is_alive()


def th2_oracle(case):
    v = []

    def finale(r):
        global _TH_HANG
        # from here on: real timing; every load() call must complete with the inline sequence
        exp = (list(case["old"]) + list(case["pre"]))[::-1]
        r.s.set_free()
        for role, t in r.cthreads.items():
            if _TH_HANG:
                break
            own = lambda role=role: [e for e in r.th._string_load_events if getattr(e, "owner", None) == role]
            if not _await_consumer(r.th, t, own, 20):
                _TH_HANG = True
                v.append({"signature": "ThreadedHistory.load | several simultaneous load() calls: never completes",
                          "msg": f"old={case['old']!r} pre={case['pre']!r} after schedule {case['ops']!r} the "
                                 f"threads ran freely, the loader thread ended, and load() call {role} did not finish "
                                 f"(yielded {r.outs[role]!r}); events still registered: "
                                 f"{len(r.th._string_load_events)}"})
            elif r.outs[role] != exp:
                v.append({"signature": "ThreadedHistory.load | several simultaneous load() calls: wrong items",
                          "msg": f"schedule {case['ops']!r}: {role} yielded {r.outs[role]!r}, inline {exp!r}"})

    lines = th2_run(case, finale)
    if any(l.startswith("impl-exception") for l in lines):
        v.append({"signature": "ThreadedHistory | exception", "msg": str(lines[-1])})
    return v


def th_impl(case, observer=None, finale=None):
    real_threading = H.threading
    out = []
    r = None
    try:
        r = ThRun(case["old"], case["pre"])
        out.append(r.line())
        for op in case["ops"]:
            r.step(op)
            out.append(r.line())
            if observer:
                observer(r, op)
        if finale:
            finale(r)
    finally:
        if r is not None:
            r.close()
        H.threading = real_threading
    return out


def th_model_lines(case):
    out = ["tnew " + enc_strs(case["old"]) + " " + enc_strs(case["pre"])]
    for op in case["ops"]:
        if op[0] == "ains":
            out.append("ains " + enc_str(op[1]))
        else:
            out.append(op[0])
    return out


# ------------------------------------------------------------------ plugin interface
def model_lines(case):
    k = case["kind"]
    if k == "file":
        return file_model_lines(case)
    if k == "codec":
        return codec_model_lines(case)
    if k == "th":
        return th_model_lines(case)
    if k == "th2":
        return th2_model_lines(case)
    raise ValueError(k)


def impl_lines(case):
    k = case["kind"]
    if k == "file":
        return file_impl(case)
    if k == "codec":
        return codec_impl(case)
    if k == "th":
        return th_impl(case)
    if k == "th2":
        return th2_run(case)
    raise ValueError(k)


# ------------------------------------------------------------------ oracle
def _match(pattern, got):
    """pattern: list of ('ok', s) | ('torn',) oldest first; got: loaded strings oldest first.
    A torn record may contribute zero or one arbitrary entry."""
    memo = {}

    def go(i, j):
        if (i, j) in memo:
            return memo[(i, j)]
        if i == len(pattern):
            r = j == len(got)
        elif pattern[i][0] == "ok":
            r = j < len(got) and got[j] == pattern[i][1] and go(i + 1, j + 1)
        else:
            r = go(i + 1, j) or (j < len(got) and go(i + 1, j + 1))
        memo[(i, j)] = r
        return r

    return go(0, 0)


def _cut_segments(segs, k):
    """segments (kind, start, end, string) of the file; only the first k bytes survive"""
    out = []
    for kind, a, b, s in segs:
        if b <= k:
            out.append((kind, a, b, s))
        elif a < k:
            out.append(("torn", a, k, None))
    return out


_THREADED_BROKEN = False


def threaded_file_load(path):
    """ThreadedHistory(FileHistory) with real, unscheduled threads"""
    th = ThreadedHistory(FileHistory(path))

    async def go():
        out = []

        async def inner():
            async for x in th.load():
                out.append(x)

        await asyncio.wait_for(inner(), timeout=30)
        return out

    return asyncio.run(go())


def file_oracle(case):
    v = []

    def bad(site, cond, msg):
        v.append({"signature": f"{site} | {cond}", "msg": msg})

    d = scratch()
    path = os.path.join(d, "ohist")
    tpath = os.path.join(d, "otrunc")
    if os.path.exists(path):
        os.unlink(path)
    insts = {}
    segs = []  # (kind, start, end, string)
    nfresh = [0]

    def pattern(ss):
        return [("ok", s[3]) if s[0] == "ok" else ("torn",) for s in ss]

    def check_load(p, ss, where):
        try:
            got = list(FileHistory(p).load_history_strings())
        except Exception as e:
            bad("FileHistory.load_history_strings", "raises", f"{where}: {type(e).__name__}: {e}")
            return None
        if not _match(pattern(ss), got[::-1]):
            intact = all(s[0] == "ok" for s in ss)
            bad("FileHistory.load_history_strings",
                "roundtrip" if intact else "torn file: completed entry lost, damaged or reordered",
                f"{where}: expected {[s[3] if s[0] == 'ok' else '<=1 damaged' for s in ss][::-1]!r} got {got!r}")
        return got

    for op in case["ops"]:
        k = op[0]
        if k == "app":
            i = op[1]
            if i not in insts:
                insts[i] = FileHistory(path)
            a = os.path.getsize(path) if os.path.exists(path) else 0
            insts[i].append_string(op[3])
            b = os.path.getsize(path)
            segs.append(("ok", a, b, op[3]))
        elif k == "fresh":
            got = check_load(path, segs, "fresh load")
            global _THREADED_BROKEN
            nfresh[0] += 1
            if (got is not None and os.path.exists(path) and not _THREADED_BROKEN
                    and (len(got) + nfresh[0]) % 3 == 0):
                # background-thread loading = inline loading (real threads, no schedule)
                try:
                    tgot = threaded_file_load(path)
                    if tgot != got:
                        bad("ThreadedHistory.load", "differs from inline load (no concurrent append)",
                            f"threaded {tgot!r} inline {got!r}")
                except (asyncio.TimeoutError, TimeoutError):
                    _THREADED_BROKEN = True  # do not wait again in this process
                    bad("ThreadedHistory.load", "never completes (no concurrent append)",
                        f"load() of a {len(got)}-entry file did not finish within 30 s")
                except Exception as e:
                    bad("ThreadedHistory.load", "raises", f"{type(e).__name__}: {e}")
        elif k == "truncall":
            data = read_bytes(path)
            write_bytes(tpath, data)
            for n in range(len(data), -1, -1):
                os.truncate(tpath, n)
                check_load(tpath, _cut_segments(segs, n), f"file cut at byte {n} of {len(data)}")
        elif k == "cutb":
            data = read_bytes(path)
            n = max(0, len(data) - op[1])
            write_bytes(path, data[:n])
            segs = _cut_segments(segs, n)
        elif k == "raw":
            write_bytes(path, bytes(op[1]))
            segs = [("torn", 0, 0, None)] * (len(op[1]) + 1)  # arbitrary content: only "never fails"
            try:
                list(FileHistory(path).load_history_strings())
            except Exception as e:
                bad("FileHistory.load_history_strings", "raises", f"raw file {op[1]!r}: {type(e).__name__}: {e}")
        elif k in ("load", "get"):
            pass
    return v


_TH_HANG = False


def th_oracle(case):
    """Property on the real ThreadedHistory under the case's schedule: when a load() call completes,
    it has yielded exactly the inline sequence: reverse(everything stored or inserted so far), every
    entry once."""
    v = []
    state = {"inserted": list(case["old"]) + list(case["pre"]), "overlap": False, "was_done": True,
             "first": True}

    def observer(r, op):
        # "overlap" is exactly the complement of the hypothesis of the Lean theorem no_overlap_exact
        # (`allowed`): an append_string whose insert happens while a load() call is in progress, or
        # the first load() starting while an append_string is between its insert and its store.
        # It is sticky: the damage to _loaded_strings persists for every later load().
        k = op[0]
        active = r.cons_active()
        if k == "cstart":
            if state["first"] and r.cthread is not None:
                state["first"] = False
                if r.athread is not None:
                    state["overlap"] = True
            state["was_done"] = False
            return
        if k == "ains" and r.pending == op[1] and r.athread is not None and op[1] not in state["inserted"]:
            state["inserted"].append(op[1])
            if active:
                state["overlap"] = True
        if not state["was_done"] and r.cthread is not None and "C" in r.s.finished:
            state["was_done"] = True
            check_completed(r)

    def check_completed(r):
        exp = state["inserted"][::-1]
        got = list(r.out)
        if got != exp:
            dup = sorted({x for x in got if got.count(x) > 1})
            missing = [x for x in exp if x not in got]
            cond = "no overlapping append" if not state["overlap"] else "append_string overlaps load"
            msg = (f"old={case['old']!r} pre={case['pre']!r} schedule={case['ops']!r}: "
                   f"yielded {got!r}, inline load gives {exp!r}")
            if dup:
                v.append({"signature": f"ThreadedHistory.load | {cond}: entry yielded twice", "msg": msg})
            if missing:
                v.append({"signature": f"ThreadedHistory.load | {cond}: entry never yielded", "msg": msg})
            if not dup and not missing:
                v.append({"signature": f"ThreadedHistory.load | {cond}: order", "msg": msg})

    def finale(r):
        # whatever the schedule prefix was: from here on all threads run freely (real timing);
        # a load() call that is in progress must complete, with the right items
        global _TH_HANG
        if not r.cons_active() or _TH_HANG:
            return
        r.s.set_free()
        if not _await_consumer(r.th, r.cthread, lambda: list(r.th._string_load_events), 20):
            _TH_HANG = True  # reported once per worker process; do not wait again
            v.append({"signature": "ThreadedHistory.load | never completes",
                      "msg": f"old={case['old']!r} pre={case['pre']!r} after schedule {case['ops']!r} the "
                             f"threads ran freely, the loader thread ended, and load() did not finish; yielded {list(r.out)!r}"})
            return
        if r.athread is not None:
            r.athread.join(8)
        check_completed(r)

    lines = th_impl(case, observer, finale)
    if any(l.startswith("impl-exception") for l in lines):
        v.append({"signature": "ThreadedHistory | exception", "msg": str(lines[-1])})
    return v


def oracle(case):
    k = case["kind"]
    if k == "file":
        v = file_oracle(case)
    elif k == "th":
        v = th_oracle(case)
    elif k == "th2":
        v = th2_oracle(case)
    else:
        v = []
        for s in case["strs"]:
            if s.encode("utf-8").decode("utf-8", errors="replace") != s:
                v.append({"signature": "codec | roundtrip", "msg": repr(s)})
    seen, out = set(), []
    for x in v:
        if x["signature"] not in seen:
            seen.add(x["signature"])
            out.append(x)
    return out


# ------------------------------------------------------------------ generators
def rec_len(ts, s):
    return 3 + len(ts.encode()) + 1 + sum(len(l.encode()) + 2 for l in s.split("\n"))


def entries_case(entries, insts=None, ts="T"):
    ops = []
    for n, e in enumerate(entries):
        ops.append(["app", (insts[n] if insts else 0), ts, e])
    ops += [["fresh"], ["truncall"]]
    return {"kind": "file", "ops": ops}


def strings_upto(alpha, n):
    for k in range(n + 1):
        for tup in itertools.product(alpha, repeat=k):
            yield "".join(tup)


def rand_string(rng, maxlen=12):
    n = rng.choice([0, 1, 1, 2, 3, 5, maxlen])
    return "".join(rng.choice(RAND_ALPHA) for _ in range(n))


def rand_file_case(rng):
    ops = []
    n_ops = rng.randrange(1, 10)
    did_trunc = False
    for _ in range(n_ops):
        r = rng.random()
        if r < 0.55:
            ops.append(["app", rng.randrange(4), rng.choice(TS_POOL), rand_string(rng)])
        elif r < 0.65:
            ops.append(["load", rng.randrange(4)])
        elif r < 0.75:
            ops.append(["get", rng.randrange(4)])
        elif r < 0.85:
            ops.append(["fresh"])
        elif r < 0.95:
            ops.append(["cutb", rng.choice([0, 1, 1, 2, 3, 4, 5, 8, 13, 30, 31, 32, 33, 60])])
        else:
            if not did_trunc:
                ops.append(["truncall"])
                did_trunc = True
    ops.append(["fresh"])
    if not did_trunc:
        ops.append(["truncall"])
    for i in range(4):
        if rng.random() < 0.5:
            ops.append(["load", i])
            ops.append(["get", i])
    return {"kind": "file", "ops": ops}


def rand_raw_case(rng):
    n = rng.choice([1, 2, 3, 5, 8, 13, 24])
    b = [rng.choice(RAW_RAND) if rng.random() < 0.9 else rng.randrange(256) for _ in range(n)]
    ops = [["raw", b], ["fresh"]]
    if rng.random() < 0.5:
        ops += [["app", 0, "T", rand_string(rng, 5)], ["fresh"], ["truncall"]]
    return {"kind": "file", "ops": ops}


def codec_cases(tier, rng):
    pts = [0, 1, 9, 10, 13, 0x2B, 0x23, 0x7F, 0x80, 0x85, 0xFF, 0x7FF, 0x800, 0x2028, 0x2029, 0xD7FF, 0xE000,
           0xFFFD, 0xFFFF, 0x10000, 0x1F600, 0x10FFFF]
    yield {"kind": "codec", "strs": [chr(p) for p in pts] + ["".join(chr(p) for p in pts)], "bytes": []}
    # every single byte, every pair of "interesting" bytes
    yield {"kind": "codec", "strs": [], "bytes": [[b] for b in range(256)]}
    inter = sorted(set(RAW_RAND + [0xC3, 0xA9, 0xE4, 0xB8, 0x96, 0xEE, 0xF1, 0xF3, 0x98]))
    yield {"kind": "codec", "strs": [], "bytes": [[a, b] for a in inter for b in inter]}


def codec_random(tier, rng):
    inter = sorted(set(RAW_RAND + [0xC3, 0xA9, 0xE4, 0xB8, 0x96, 0xEE, 0xF1, 0xF3, 0x98]))
    n = 40 if tier == "quick" else 400
    for _ in range(n):
        strs = []
        for _ in range(20):
            k = rng.randrange(0, 6)
            s = ""
            for _ in range(k):
                c = rng.choice([rng.randrange(0x80), rng.randrange(0x80, 0x800), rng.randrange(0x800, 0xD800),
                                rng.randrange(0xE000, 0x10000), rng.randrange(0x10000, 0x110000)])
                s += chr(c)
            strs.append(s)
        bs = [[rng.choice(inter) if rng.random() < 0.85 else rng.randrange(256)
               for _ in range(rng.randrange(1, 9))] for _ in range(40)]
        yield {"kind": "codec", "strs": strs, "bytes": bs}


# -- threaded schedules
class Ctl:
    """control skeleton used only to enumerate schedules whose steps are enabled"""

    __slots__ = ("l", "rem", "c", "ev", "pend", "loaded", "nstore", "appends", "sawdone")

    def __init__(self, nstore):
        self.l = "-"
        self.rem = 0
        self.c = "-"
        self.ev = False
        self.pend = False
        self.loaded = False
        self.nstore = nstore
        self.appends = 0
        self.sawdone = False

    def copy(self):
        o = Ctl(self.nstore)
        for a in self.__slots__:
            setattr(o, a, getattr(self, a))
        return o

    def enabled(self, max_app, restarts):
        e = []
        if self.c == "-" or (self.c == "done" and restarts):
            e.append("cstart")
        if self.c == "wait" and self.ev:
            e.append("cwait")
        if self.c == "read":
            e.append("cread")
        if self.c == "yield":
            e.append("cyield")
        if self.l == "start":
            e.append("lreset")
        if self.l == "called":
            e.append("lsnap")
        if self.l == "iter":
            e.append("lappend" if self.rem else "ldone")
        if self.l == "notify":
            e.append("lnotify")
        if self.l == "notifyFinal":
            e.append("lfinal")
        if self.pend:
            e.append("astore")
        elif self.appends < max_app:
            e.append("ains")
        return e

    def do(self, k):
        if k == "cstart":
            if self.l == "-":
                self.l = "start"
            self.c, self.ev = "wait", True
        elif k == "cwait":
            self.c = "read"
        elif k == "cread":
            self.ev = False
            self.sawdone = self.loaded
            self.c = "yield"
        elif k == "cyield":
            self.c = "done" if self.sawdone else "wait"
        elif k == "lreset":
            self.l = "called"
        elif k == "lsnap":
            self.l, self.rem = "iter", self.nstore
        elif k == "lappend":
            self.l, self.rem = "notify", self.rem - 1
        elif k == "lnotify":
            self.l, self.ev = "iter", True
        elif k == "ldone":
            self.l, self.loaded = "notifyFinal", True
        elif k == "lfinal":
            self.l, self.ev = "fin", True
        elif k == "ains":
            self.pend = True
            self.appends += 1
        elif k == "astore":
            self.pend = False
            self.nstore += 1


def all_schedules(nstore, depth, max_app, restarts=True):
    """maximal schedules (length == depth, or nothing enabled) of enabled steps"""
    out = []

    def go(ctl, sched):
        en = ctl.enabled(max_app, restarts)
        if len(sched) == depth or not en:
            out.append(list(sched))
            return
        for k in en:
            c2 = ctl.copy()
            c2.do(k)
            sched.append(k)
            go(c2, sched)
            sched.pop()

    go(Ctl(nstore), [])
    return out


def label_appends(sched):
    n = 0
    ops = []
    for k in sched:
        if k == "ains":
            n += 1
            ops.append(["ains", "new%d" % n])
        else:
            ops.append([k])
    return ops


def th_exhaustive(tier):
    # (old, pre, depth, max concurrent appends, allow a second load())
    if tier == "quick":
        plan = [([], [], 40, 0, False), ([], ["p1"], 40, 0, False), (["o1", "o2"], [], 12, 0, False),
                (["o1", "o2"], [], 7, 1, True), ([], ["p1"], 8, 1, True)]
    else:
        plan = [([], [], 30, 0, True), ([], ["p1"], 40, 0, False), ([], ["p1"], 20, 0, True),
                (["o1", "o2"], [], 40, 0, False), (["o1", "o2"], ["p1"], 18, 0, False),
                (["o1", "o2"], [], 12, 1, True), ([], ["p1"], 12, 1, True), (["o1"], ["p1"], 12, 1, True),
                ([], [], 10, 2, True), (["o1"], [], 10, 2, True)]
    for old, pre, depth, max_app, restarts in plan:
        for sched in all_schedules(len(old) + len(pre), depth, max_app, restarts):
            yield {"kind": "th", "old": old, "pre": pre, "ops": label_appends(sched)}


def rand_th_case(rng, with_appends):
    old = ["o%d" % i for i in range(rng.choice([0, 1, 2, 3, 5]))]
    pre = ["p%d" % i for i in range(rng.choice([0, 0, 1, 2]))]
    ctl = Ctl(len(old) + len(pre))
    sched = []
    max_app = rng.choice([1, 2, 3]) if with_appends else 0
    restarts_left = rng.choice([0, 1, 2])
    for _ in range(rng.choice([10, 20, 40, 80])):
        en = ctl.enabled(max_app, restarts_left > 0)
        if not en:
            break
        # occasionally try a disabled step too (must be a no-op on both sides)
        if rng.random() < 0.05:
            k = rng.choice(["cwait", "cread", "cyield", "lreset", "lsnap", "lappend", "lnotify", "ldone", "lfinal", "astore"])
            if k not in en:
                sched.append(k)
                continue
        weights = [(0.3 if k == "ains" else 1.0) for k in en]
        k = rng.choices(en, weights)[0]
        if k == "cstart" and ctl.c == "done":
            restarts_left -= 1
        ctl.do(k)
        sched.append(k)
    return {"kind": "th", "old": old, "pre": pre, "ops": label_appends(sched)}


def rand_th2_case(rng):
    old = ["o%d" % i for i in range(rng.choice([0, 0, 1, 2]))]
    pre = ["p0"] if rng.random() < 0.2 else []
    n = rng.choice([2, 2, 3])
    ops = [["c", 0, "start"]]
    lsteps = ["reset", "snap", "append", "notify", "set", "done", "final"]
    for _ in range(rng.choice([10, 20, 40, 70])):
        r = rng.random()
        if r < 0.45:
            ops.append(["l", rng.choice(lsteps)])
        else:
            ops.append(["c", rng.randrange(n), rng.choice(["start", "wait", "wait", "read", "read", "yield", "yield"])])
    return {"kind": "th2", "old": old, "pre": pre, "ops": ops}


class Ctl2:
    """control skeleton of the multi-consumer system, used only to enumerate enabled schedules"""

    def __init__(self, nstore, ncons):
        self.l, self.rem, self.loaded, self.nstore = "-", 0, False, nstore
        self.left = 0      # event.set() calls left in the current loop (approximation)
        self.c = ["-"] * ncons
        self.saw = [False] * ncons

    def copy(self):
        o = Ctl2(self.nstore, len(self.c))
        o.l, o.rem, o.loaded, o.left = self.l, self.rem, self.loaded, self.left
        o.c = list(self.c)
        o.saw = list(self.saw)
        return o

    def enabled(self):
        e = []
        for i, c in enumerate(self.c):
            if c == "-":
                if i == 0 or self.c[i - 1] != "-":
                    e.append(["c", i, "start"])
            elif c in ("wait", "read", "yield"):
                e.append(["c", i, c])
        m = {"start": "reset", "called": "snap", "notify": "notify", "notifyFinal": "final", "loop": "set"}
        if self.l in m:
            e.append(["l", m[self.l]])
        if self.l == "iter":
            e.append(["l", "append" if self.rem else "done"])
        return e

    def do(self, op):
        if op[0] == "c":
            i, w = op[1], op[2]
            if w == "start":
                self.c[i] = "wait"
                if self.l == "-":
                    self.l = "start"
            elif w == "wait":
                self.c[i] = "read"      # may be a stutter in reality (event not set): harmless
            elif w == "read":
                self.c[i] = "yield"
                self.saw[i] = self.loaded
            else:
                self.c[i] = "done" if self.saw[i] else "wait"
        else:
            w = op[1]
            if w == "reset":
                self.l = "called"
            elif w == "snap":
                self.l, self.rem = "iter", self.nstore
            elif w == "append":
                self.l, self.rem = "notify", self.rem - 1
            elif w in ("notify", "final"):
                n = sum(1 for c in self.c if c in ("wait", "read", "yield"))
                after = "fin" if self.loaded else "iter"
                self.l, self.left = ("loop", n - 1) if n else (after, 0)
            elif w == "set":
                if self.left > 0:
                    self.left -= 1
                else:
                    self.l = "fin" if self.loaded else "iter"
            elif w == "done":
                self.l, self.loaded = "notifyFinal", True


def th2_exhaustive(nstore, ncons, depth):
    """maximal schedules (length == depth, or nothing enabled) of enabled steps; the skeleton does not
    track the events, so a "wait" step may be a stutter (event not set) - on both sides"""
    out = []

    def go(ctl, sched):
        en = ctl.enabled()
        if len(sched) == depth or not en:
            out.append(list(sched))
            return
        for op in en:
            c2 = ctl.copy()
            c2.do(op)
            sched.append(op)
            go(c2, sched)
            sched.pop()

    go(Ctl2(nstore, ncons), [])
    return out


def th2_systematic(tier):
    """both consumers drained and waiting, then every interleaving of the loader's remaining steps with
    the steps of the consumers (the skeleton does not track events, so some steps are stutters)"""
    def c(i, n=1):
        return [["c", i, w] for w in ("wait", "read", "yield")] * n

    for old in ([], ["o1"]):
        k = len(old)
        prefix = [["c", 0, "start"], ["c", 1, "start"], ["l", "reset"], ["l", "snap"]]
        prefix += ([["l", "append"], ["l", "notify"], ["l", "set"], ["l", "set"]]) * k + c(0) + c(1)
        ltail = [["l", "done"], ["l", "final"], ["l", "set"], ["l", "set"]]
        for first in (0, 1):
            ctail = c(first)
            n = len(ltail) + len(ctail)
            for pos in itertools.combinations(range(n), len(ctail)):
                ops, li, ci = [], 0, 0
                for j in range(n):
                    if j in pos:
                        ops.append(ctail[ci]); ci += 1
                    else:
                        ops.append(ltail[li]); li += 1
                yield {"kind": "th2", "old": old, "pre": [], "ops": prefix + ops + c(1 - first)}


_EXHAUSTIVE_DONE = set()


def cases(tier, rng):
    """exhaustive small scope (once per process and tier: the source-change escalation calls this again
    with further seeds, which then add only random cases), then seeded random cases"""
    if tier in _EXHAUSTIVE_DONE:
        yield from random_cases(tier, rng)
        return
    if tier == "thorough" and "quick" in _EXHAUSTIVE_DONE:
        # the failing-input search of a quick run whose proofs / correspondence broke: bounded extra search
        yield from itertools.islice(random_cases("thorough", rng), 0, None, 3)
        return
    _EXHAUSTIVE_DONE.add(tier)
    yield from exhaustive_cases(tier, rng)
    yield from random_cases(tier, rng)


def exhaustive_cases(tier, rng):
    quick = tier == "quick"
    # --- codec
    yield from codec_cases(tier, rng)
    # --- files, exhaustive small scope
    for s in strings_upto(ALPHA, 3 if quick else 4):
        yield entries_case([s])
    pair = list(strings_upto(ALPHA, 1 if quick else 2))
    for a in pair:
        for b in pair:
            yield entries_case([a, b], insts=[0, 1])
    if not quick:
        one = list(strings_upto(ALPHA, 1))
        for a in one:
            for b in one:
                for c in one:
                    yield entries_case([a, b, c], insts=[0, 1, 0])
    # recovery after a torn write: every cut inside the last record of a 2-entry file, then one more append
    base = ["a\n+", "\U0001F600#"] if quick else ["a\n+", "\U0001F600#", "\u2028\r", "", "\n"]
    for e in base:
        n = rec_len("T", e)
        for j in range(n + 2):
            yield {"kind": "file", "ops": [["app", 0, "T", "x"], ["app", 1, "T", e], ["cutb", j],
                                           ["app", 2, "T", "+z\n#"], ["fresh"], ["truncall"],
                                           ["load", 0], ["get", 0], ["get", 1], ["get", 2]]}
    # raw garbage files
    for k in range(0, (3 if quick else 4) + 1):
        for tup in itertools.product(RAW_ALPHA, repeat=k):
            yield {"kind": "file", "ops": [["raw", list(tup)], ["fresh"], ["truncall"]]}
    # --- threaded, exhaustive schedules
    yield from th_exhaustive(tier)
    # --- several simultaneous load() calls
    yield from th2_systematic(tier)
    for nstore, ncons, depth in ([(0, 2, 7)] if quick else [(0, 2, 10), (1, 2, 10)]):
        old = ["o%d" % i for i in range(nstore)]
        for sched in th2_exhaustive(nstore, ncons, depth):
            yield {"kind": "th2", "old": old, "pre": [], "ops": sched}


def random_cases(tier, rng):
    quick = tier == "quick"
    yield from codec_random(tier, rng)
    for _ in range(100 if quick else 3000):
        yield rand_th2_case(rng)
    for _ in range(600 if quick else 12000):
        yield rand_file_case(rng)
    for _ in range(300 if quick else 6000):
        yield rand_raw_case(rng)
    for _ in range(300 if quick else 8000):
        yield rand_th_case(rng, with_appends=rng.random() < 0.6)


def nontrivial(case):
    k = case["kind"]
    if k == "file":
        return any((op[0] == "app" and op[3]) or (op[0] == "raw" and op[1]) for op in case["ops"])
    if k == "th":
        return any(op[0] in ("cwait", "cread", "cyield") for op in case["ops"])
    if k == "th2":
        return len({op[1] for op in case["ops"] if op[0] == "c" and op[2] == "start"}) >= 2
    return True


def distribution(cases):
    d = {"kind": {}, "file_ops": {}, "th_steps": {}, "th_len": {}, "entries_per_file": {}, "th2_consumers": {},
         "th2_len": {}}
    for c in cases:
        k = c["kind"]
        d["kind"][k] = d["kind"].get(k, 0) + 1
        if k == "file":
            n = 0
            for op in c["ops"]:
                d["file_ops"][op[0]] = d["file_ops"].get(op[0], 0) + 1
                n += op[0] == "app"
            d["entries_per_file"][str(n)] = d["entries_per_file"].get(str(n), 0) + 1
        elif k == "th":
            for op in c["ops"]:
                d["th_steps"][op[0]] = d["th_steps"].get(op[0], 0) + 1
            b = str(len(c["ops"]) // 5 * 5)
            d["th_len"][b] = d["th_len"].get(b, 0) + 1
        elif k == "th2":
            n = str(len({op[1] for op in c["ops"] if op[0] == "c" and op[2] == "start"}))
            d["th2_consumers"][n] = d["th2_consumers"].get(n, 0) + 1
            b = str(len(c["ops"]) // 5 * 5)
            d["th2_len"][b] = d["th2_len"].get(b, 0) + 1
    return d


def sample_view(case):
    if case["kind"] == "codec":
        return {"kind": "codec", "strs": case["strs"][:3], "bytes": case["bytes"][:3],
                "n": len(case["strs"]) + len(case["bytes"])}
    return case


if __name__ == "__main__":
    os.makedirs(SCRATCH, exist_ok=True)
    try:
        rc = core.main(sys.modules[__name__])
    finally:
        # scratch dirs of this process and of finished workers
        for name in os.listdir(SCRATCH) if os.path.isdir(SCRATCH) else []:
            if name.startswith("p") and name[1:].isdigit():
                pid = int(name[1:])
                alive = os.path.exists("/proc/%d" % pid) and pid != os.getpid()
                if not alive:
                    shutil.rmtree(os.path.join(SCRATCH, name), ignore_errors=True)
    sys.exit(rc)
